"""Frame translator (C12): static read/write sets of `self.*` for every public method of every estimator.

Pure `ast` work on /repo's current sources -- gemclus is never imported.  For each of the estimator classes exported
by gemclus.{linear,mlp,sparse,nonparametric,tree} the method resolution order is computed statically (C3) and every public
method (`__init__`, `fit`, `fit_predict`, `predict`, `predict_proba`, `score`, `path`, and any other method without a
leading underscore defined in gemclus) is analysed together with everything it calls on `self`
(`self.m(..)`, `super().m(..)`, `Cls.m(self, ..)`, gemclus functions receiving `self`, e.g. `_path(self, ..)` and
`compute_val_score(clf, ..)` where `clf.x` is `self.x`).

The dataflow is conservative and structured (no CFG): statements in order; both branches of an `if` are taken unless the
test is decided by a constant argument/default bound at the call site (`_infer(X)` binds `retain=True`); loop bodies,
`try` bodies, lambdas, comprehensions and nested functions are "may execute".  Three sets per call:

  reads   attributes READ BEFORE being (definitely) written in that call, in first-read order   (may over-approximate)
  net     attributes whose value at a normal exit MAY differ from their value at entry: `writes` minus what is provably
          restored by the save / restore idiom (`v = self.a` while `a` is untouched ... `self.a = v` or `set_params(a=v)`,
          `v` not reassigned in between)
  netExc  attributes that, in addition to `net`, may be left modified when the call RAISES (every statement and every
          callee is a possible raise point; a restore inside `finally` is honoured)
  writes  attributes that MAY be written: `self.x = ..`, `self.x += ..`, `self.x[i] = ..`, `del self.x`, tuple targets,
          `np.copyto(self.x, ..)`, `set_params(x=..)`, `setattr(self, "x", ..)`, a mutating method call on the object
          stored in `self.x` (`self.tree_._add_child(..)`, `self.optimiser_.update_params(..)`)         (may over-approximate)
  must    attributes DEFINITELY (re)bound on every normal return                                      (may under-approximate)

NOT seen (trusted, validated dynamically by harness/props/c12.py): mutation through a local alias
(`weights = self._get_weights(); optimiser.update_params(weights, ..)`) and mutation of a hyperparameter object by a callee
that received it as an argument.  Both can only touch objects the analysis already lists as read.

A source construct outside what is handled (self escaping to an unknown function, `setattr` with a computed name,
`**kwargs` to `set_params`, an `__init__` statement that is not a store or a parent constructor call ...) raises
TranslationFailure: the tie is then broken and the check reports it.
"""
import ast
import os

from .tables import TranslationFailure, lean_str

REPO = os.environ.get("VERIF_REPO", "/repo")
PKG = "gemclus"
SUBPACKAGES = ["linear", "mlp", "sparse", "nonparametric", "tree"]
CORE_METHODS = ["__init__", "fit", "fit_predict", "predict", "predict_proba", "score", "path"]
FITTED = "*fitted*"          # pseudo attribute: "which fitted attributes exist" (check_is_fitted)
GLOBAL_RNG = "*np.random*"   # pseudo attribute: numpy's global generator

# ---- effects of code outside gemclus that receives `self` --------------------------------------------------------
# (reads, may-writes, must-writes); "HYPER" expands to the constructor parameters of the concrete class
EXTERNAL_METHODS = {   # inherited from sklearn.base.BaseEstimator / ClusterMixin
    "_validate_params": (["HYPER"], [], []),
    "get_params": (["HYPER"], [], []),
    "set_params": (["HYPER"], ["KWARGS"], ["KWARGS"]),
    "_validate_data": ([], ["n_features_in_", "feature_names_in_"], ["n_features_in_"]),
    "__sklearn_tags__": ([], [], []),
    "_get_tags": ([], [], []),
    "_more_tags": ([], [], []),
}
EXTERNAL_CLASS_METHODS = {   # which external base defines which of the names above (MRO lookups stop there)
    "BaseEstimator": {"_validate_params", "get_params", "set_params", "_validate_data", "__sklearn_tags__", "_get_tags",
                      "_more_tags", "__repr__", "__getstate__", "__setstate__"},
    "ClusterMixin": {"fit_predict", "__sklearn_tags__", "_more_tags"},
    "ABC": set(),
}
EXTERNAL_FUNCS = {     # qualified name -> effect on the estimator passed as an argument
    # validate_data(reset=True): n_features_in_ is set from X; feature_names_in_ is set from X or deleted
    "sklearn.utils.validation.validate_data": ([], ["n_features_in_", "feature_names_in_"], ["n_features_in_"]),
    "sklearn.utils.validation.check_is_fitted": ([FITTED], [], []),
    "sklearn.utils.check_array": ([], [], []),
}
HARMLESS_BUILTINS = {"isinstance", "issubclass", "print", "len", "type", "id", "repr", "str", "callable"}
# methods of numpy arrays / builtin containers that do not mutate the receiver
PURE_METHODS = {"sum", "mean", "argmax", "argmin", "max", "min", "reshape", "copy", "item", "tolist", "astype", "dot",
                "transpose", "ravel", "flatten", "squeeze", "any", "all", "index", "count", "get", "keys", "values",
                "items", "format", "startswith", "endswith", "lower", "upper", "cumsum", "nonzero", "std", "var",
                "take", "round", "clip", "conj", "diagonal", "trace", "prod", "ptp", "argsort", "view", "swapaxes"}


# ================================================================== modules and classes
class Module:
    def __init__(self, name, path, is_pkg):
        self.name, self.path, self.is_pkg = name, path, is_pkg
        self.tree = ast.parse(open(path).read(), filename=path)
        self.classes, self.functions, self.imports = {}, {}, {}
        self._collect(self.tree.body)

    def _collect(self, body):
        pkg = self.name.split(".") if self.is_pkg else self.name.split(".")[:-1]
        for node in body:
            if isinstance(node, ast.ClassDef):
                self.classes[node.name] = node
            elif isinstance(node, ast.FunctionDef):
                self.functions[node.name] = node
            elif isinstance(node, ast.ImportFrom):
                if node.level:
                    base = pkg[:len(pkg) - (node.level - 1)]
                    mod = ".".join(base + ([node.module] if node.module else []))
                else:
                    mod = node.module
                for a in node.names:
                    self.imports[a.asname or a.name] = (mod, a.name)
            elif isinstance(node, ast.Import):
                for a in node.names:
                    self.imports[a.asname or a.name.split(".")[0]] = (a.name if a.asname else a.name.split(".")[0], None)
            elif isinstance(node, ast.Try):
                self._collect(node.body)
                for h in node.handlers:
                    self._collect([s for s in h.body if isinstance(s, (ast.Import, ast.ImportFrom))])


class ClassInfo:
    def __init__(self, name, module, node):
        self.name, self.module, self.node = name, module, node
        self.methods = {n.name: n for n in node.body if isinstance(n, ast.FunctionDef)}
        self.bases = []   # ClassInfo | str (external)
        self.mro = None

    def __repr__(self):
        return f"<{self.name}>"


class World:
    """all gemclus modules, classes and their static MROs"""

    def __init__(self, repo=None):
        self.repo = repo or os.environ.get("VERIF_REPO", REPO)
        self.modules = {}
        root = os.path.join(self.repo, PKG)
        if not os.path.isdir(root):
            raise TranslationFailure(f"{root} not found")
        for dirpath, dirnames, files in os.walk(root):
            dirnames[:] = [d for d in dirnames if d not in ("tests", "__pycache__")]
            for f in sorted(files):
                if not f.endswith(".py"):
                    continue
                rel = os.path.relpath(os.path.join(dirpath, f), self.repo)
                parts = rel[:-3].split(os.sep)
                is_pkg = parts[-1] == "__init__"
                if is_pkg:
                    parts = parts[:-1]
                try:
                    self.modules[".".join(parts)] = Module(".".join(parts), os.path.join(dirpath, f), is_pkg)
                except SyntaxError as e:
                    raise TranslationFailure(f"cannot parse {rel}: {e}")
        self.classes = {}
        for m in self.modules.values():
            for cname, node in m.classes.items():
                self.classes[(m.name, cname)] = ClassInfo(cname, m, node)
        for ci in self.classes.values():
            for b in ci.node.bases:
                r = self.resolve_name(ci.module, b.id) if isinstance(b, ast.Name) else None
                if isinstance(r, ClassInfo):
                    ci.bases.append(r)
                elif isinstance(b, ast.Name):
                    ci.bases.append(b.id)
                elif isinstance(b, ast.Attribute):
                    ci.bases.append(b.attr)
                else:
                    raise TranslationFailure(f"class {ci.name}: unsupported base expression")
        for ci in self.classes.values():
            self._mro(ci)

    def resolve_name(self, module, name, depth=0):
        """a module-level name -> ClassInfo | ('func', Module, FunctionDef) | ('ext', qualified) | None"""
        if depth > 8:
            return None
        if name in module.classes:
            return self.classes.get((module.name, name))
        if name in module.functions:
            return ("func", module, module.functions[name])
        if name in module.imports:
            mod, orig = module.imports[name]
            if orig is None:
                return ("ext", mod)
            if mod == PKG or mod.startswith(PKG + "."):
                target = self.modules.get(mod)
                if target is None:
                    return ("ext", f"{mod}.{orig}")
                r = self.resolve_name(target, orig, depth + 1)
                if r is None and f"{mod}.{orig}" in self.modules:
                    return ("ext", f"{mod}.{orig}")
                return r
            return ("ext", f"{mod}.{orig}")
        return None

    def _mro(self, ci, stack=()):
        if ci.mro is not None:
            return ci.mro
        if ci in stack:
            raise TranslationFailure(f"inheritance cycle at {ci.name}")
        seqs = []
        for b in ci.bases:
            seqs.append(list(self._mro(b, stack + (ci,))) if isinstance(b, ClassInfo) else [b])
        seqs.append(list(ci.bases))
        out = [ci]
        seqs = [s for s in seqs if s]
        while seqs:
            for s in seqs:
                cand = s[0]
                if not any(cand in t[1:] for t in seqs):
                    break
            else:
                raise TranslationFailure(f"no consistent MRO for {ci.name}")
            out.append(cand)
            seqs = [[x for x in t if x != cand] for t in seqs]      # cand only occurs at heads
            seqs = [t for t in seqs if t]
        ci.mro = out
        return out

    def estimators(self):
        """classes exported by the five subpackages that derive from BaseEstimator, in export order"""
        out = []
        for sp in SUBPACKAGES:
            m = self.modules.get(f"{PKG}.{sp}")
            if m is None:
                raise TranslationFailure(f"subpackage {sp} missing")
            for local in m.imports:
                r = self.resolve_name(m, local)
                if isinstance(r, ClassInfo) and "BaseEstimator" in [x for x in r.mro if isinstance(x, str)]:
                    if r not in out:
                        out.append(r)
        return out


# ================================================================== dataflow
class St:
    """dataflow state: reads-before-write (ordered), may-written, must-written, dirty (may differ from the value at
    function entry), vals (local variable -> attribute whose entry value it currently holds)"""
    __slots__ = ("reads", "may", "must", "dirty", "vals", "exc")

    def __init__(self, reads=None, may=None, must=None, dirty=None, vals=None, exc=None):
        self.reads = list(reads or [])
        self.may = set(may or ())
        self.must = set(must or ())
        self.dirty = set(dirty or ())
        self.vals = dict(vals or {})
        self.exc = set(exc or ())       # attributes possibly dirty at a point where an exception may leave the call

    def copy(self):
        return St(self.reads, self.may, self.must, self.dirty, self.vals, self.exc)

    def mark(self):
        """an exception may be raised here"""
        self.exc |= self.dirty

    def read(self, a):
        if a not in self.must and a not in self.reads:
            self.reads.append(a)

    def write(self, a, definite=True):
        self.may.add(a)
        self.dirty.add(a)
        if definite:
            self.must.add(a)
            if a.endswith("_") and not a.startswith("__"):     # check_is_fitted is satisfied from here on
                self.may.add(FITTED)
                self.must.add(FITTED)
                self.dirty.add(FITTED)

    def absorb_may(self, other):
        """merge the effects of code that may or may not have run (state `other` started as a copy of self)"""
        for r in other.reads:
            if r not in self.reads:
                self.reads.append(r)
        self.may |= other.may
        self.dirty |= other.dirty
        self.exc |= other.exc
        self.vals = {k: v for k, v in self.vals.items() if other.vals.get(k) == v}


class Summary:
    def __init__(self, reads, may, must, returns_self, dirty=None, exc=None):
        self.reads, self.may, self.must, self.returns_self = list(reads), set(may), set(must), returns_self
        self.dirty = set(may) if dirty is None else set(dirty)
        self.exc = set(may) if exc is None else set(exc)


class Fn:
    """one function being analysed"""

    def __init__(self, node, owner, module, selfnames, consts):
        self.node, self.owner, self.module = node, owner, module
        self.selfnames = set(selfnames)
        stored = {n.id for n in ast.walk(node) if isinstance(n, ast.Name) and isinstance(n.ctx, (ast.Store, ast.Del))}
        for n in ast.walk(node):
            if isinstance(n, (ast.FunctionDef, ast.Lambda)) and n is not node:
                stored |= {a.arg for a in n.args.args + n.args.kwonlyargs}
        if stored & self.selfnames:
            raise TranslationFailure(f"{node.name}: the estimator variable is reassigned")
        self.consts = {k: v for k, v in consts.items() if k not in stored}
        self.exits = []          # must-sets at normal exits
        self.exit_dirty = []     # dirty sets at normal exits
        self.finally_stack = []  # `finally` bodies enclosing the current statement (run before a `return` leaves)
        self.ret_self = []       # per return: does it return the estimator?


class Analysis:
    """frames of one concrete estimator class"""

    def __init__(self, world, cls):
        self.w, self.cls = world, cls
        self.mro = cls.mro
        self.memo, self.active = {}, set()
        init_owner, init_fn = self.resolve("__init__")
        a = init_fn.args
        if a.vararg or a.kwarg or a.kwonlyargs or a.posonlyargs:
            raise TranslationFailure(f"{cls.name}.__init__: *args/**kwargs/keyword-only parameters")
        self.hyper = [x.arg for x in a.args][1:]
        self.attr_types = {}     # attribute -> ClassInfo of the gemclus object stored there
        self.known_attrs = set(self.hyper)
        for c in self.mro:
            if isinstance(c, ClassInfo):
                for n in ast.walk(c.node):
                    if isinstance(n, ast.Attribute) and isinstance(n.ctx, ast.Store) and isinstance(n.value, ast.Name):
                        self.known_attrs.add(n.attr)
                    if isinstance(n, ast.Assign) and len(n.targets) == 1 and isinstance(n.targets[0], ast.Attribute) \
                            and isinstance(n.targets[0].value, ast.Name) and n.targets[0].value.id == "self" \
                            and isinstance(n.value, ast.Call) and isinstance(n.value.func, ast.Name):
                        r = self.w.resolve_name(c.module, n.value.func.id)
                        if isinstance(r, ClassInfo):
                            self.attr_types[n.targets[0].attr] = r

    # ---- method resolution
    def resolve(self, name, after=None, start=None):
        """first class of the MRO (strictly after `after`, or from `start`) defining `name`;
        returns (ClassInfo, FunctionDef) or ('ext', base) or None"""
        seq = self.mro
        if after is not None:
            seq = seq[seq.index(after) + 1:]
        if start is not None:
            seq = start.mro
        for c in seq:
            if isinstance(c, ClassInfo):
                if name in c.methods:
                    return c, c.methods[name]
            elif name in EXTERNAL_CLASS_METHODS.get(c, set()):
                return ("ext", c)
        return None

    # ---- summaries
    def summary(self, fn_node, owner, module, selfnames, consts):
        key = (id(fn_node), owner.name if owner else None, tuple(sorted(selfnames)), tuple(sorted((k, repr(v)) for k, v in consts.items())))
        if key in self.memo:
            return self.memo[key]
        if key in self.active:      # recursion: the body's own effects are accounted for by the outer activation
            return Summary([], set(), set(), False)
        self.active.add(key)
        try:
            f = Fn(fn_node, owner, module, selfnames, consts)
            st = St()
            term = self.block(f, fn_node.body, st)
            if term is None:
                f.exits.append(set(st.must))
                f.exit_dirty.append(set(st.dirty))
                f.ret_self.append(False)
            must = set.intersection(*f.exits) if f.exits else set()
            dirty = set().union(*f.exit_dirty) if f.exit_dirty else set()
            s = Summary(st.reads, st.may, must, bool(f.ret_self) and all(f.ret_self), dirty, st.exc)
        finally:
            self.active.discard(key)
        self.memo[key] = s
        return s

    def apply(self, st, s, kwargs=None):
        for r in s.reads:
            st.read(r)
        if not getattr(self, "noraise", False):
            st.exc |= st.dirty | s.exc     # the callee may raise half-way
        st.may |= s.may
        st.must |= s.must
        st.dirty |= s.dirty

    def expand(self, eff, kwargs=()):
        def ex(names):
            out = []
            for n in names:
                out += self.hyper if n == "HYPER" else list(kwargs) if n == "KWARGS" else [n]
            return out
        may = set(ex(eff[1]))
        # a single store is atomic (done or not done when the callee raises); several may be half done
        return Summary(ex(eff[0]), may, set(ex(eff[2])), False, exc=(may if len(may) > 1 else set()))

    # ---- statements
    def block(self, f, stmts, st):
        for s in stmts:
            at = self.atomic(f, s)
            if not (isinstance(s, ast.Try) or at):   # entering `try` cannot raise; most other statements may
                st.mark()
            old, self.noraise = getattr(self, "noraise", False), at
            try:
                t = self.stmt(f, s, st)
            finally:
                self.noraise = old
            if t:
                return t
        return None

    def atomic(self, f, s):
        """statements ASSUMED not to raise once reached (a store of a local / literal into an attribute or a local, a
        `set_params` of one existing hyperparameter): the two halves of the save / restore idiom.
        `x = v`, `self.a = v`, `self.set_params(a=v, ..)` with plain names / literals on the right"""
        simple = lambda e: isinstance(e, (ast.Name, ast.Constant))
        if isinstance(s, ast.Assign) and simple(s.value):
            return all(isinstance(t, ast.Name) or self.self_attr(f, t) is not None for t in s.targets)
        if isinstance(s, ast.Expr) and isinstance(s.value, ast.Call) and isinstance(s.value.func, ast.Attribute) \
                and s.value.func.attr == "set_params" and isinstance(s.value.func.value, ast.Name) \
                and s.value.func.value.id in f.selfnames and not s.value.args:
            return all(k.arg is not None and simple(k.value) for k in s.value.keywords) and len(s.value.keywords) == 1
        return isinstance(s, ast.Pass)

    def stmt(self, f, s, st):
        if isinstance(s, ast.Expr):
            self.expr(f, s.value, st)
        elif isinstance(s, ast.Assign):
            self.expr(f, s.value, st)
            # save / restore idiom:  v = self.a  ...  self.a = v   (v still holds the entry value of a)
            src = self.self_attr(f, s.value)
            held = src if (src is not None and src not in st.dirty) else \
                st.vals.get(s.value.id) if isinstance(s.value, ast.Name) else None
            for t in s.targets:
                self.target(f, t, st)
                a = self.self_attr(f, t)
                if a is not None and held == a:
                    st.dirty.discard(a)
                if isinstance(t, ast.Name) and held is not None:
                    st.vals[t.id] = held
        elif isinstance(s, ast.AnnAssign):
            if s.value is not None:
                self.expr(f, s.value, st)
                self.target(f, s.target, st)
        elif isinstance(s, ast.AugAssign):
            self.expr(f, s.value, st)
            a = self.self_attr(f, s.target)
            if a is not None:
                st.read(a)
                st.write(a)
            else:
                self.target(f, s.target, st, aug=True)
        elif isinstance(s, ast.Delete):
            for t in s.targets:
                self.target(f, t, st)
        elif isinstance(s, ast.Return):
            rs = False
            if s.value is not None:
                rs = self.is_self_expr(f, s.value)
                self.expr(f, s.value, st, allow_self=True)
            ex = st
            if f.finally_stack:
                ex = st.copy()
                stack, f.finally_stack = f.finally_stack, []
                for fb in reversed(stack):
                    self.block(f, fb, ex)
                f.finally_stack = stack
                st.exc |= ex.exc
            f.exits.append(set(ex.must))
            f.exit_dirty.append(set(ex.dirty))
            f.ret_self.append(rs)
            return "return"
        elif isinstance(s, ast.Raise):
            if s.exc is not None:
                self.expr(f, s.exc, st)
            return "raise"
        elif isinstance(s, (ast.Break, ast.Continue)):
            return "loop"
        elif isinstance(s, ast.If):
            self.expr(f, s.test, st)
            c = self.const_test(f, s.test)
            if c is True:
                return self.block(f, s.body, st)
            if c is False:
                return self.block(f, s.orelse, st)
            a, b = st.copy(), st.copy()
            ta, tb = self.block(f, s.body, a), self.block(f, s.orelse, b)
            st.absorb_may(a)
            st.absorb_may(b)
            st.dirty = (a.dirty if not ta else set()) | (b.dirty if not tb else set()) if not (ta and tb) else a.dirty | b.dirty
            if ta and tb:
                st.must = a.must | b.must
                return ta if ta == tb else "raise" if {ta, tb} == {"raise"} else "loop" if "loop" in (ta, tb) else "return"
            st.must = b.must if ta else a.must if tb else (a.must & b.must)
        elif isinstance(s, (ast.For, ast.While)):
            self.forget_stored(s, st)
            if isinstance(s, ast.For):
                self.expr(f, s.iter, st)
                self.target(f, s.target, st)
            else:
                self.expr(f, s.test, st)
            body = st.copy()
            self.block(f, s.body, body)
            if isinstance(s, ast.While):
                self.expr(f, s.test, body)
            st.absorb_may(body)
            o = st.copy()
            self.block(f, s.orelse, o)
            st.absorb_may(o)
        elif isinstance(s, ast.Try):
            self.forget_stored(s, st)
            pre = st.copy()
            # body (+ else) runs in sequence; what it raises may be caught by a handler or pass through `finally`
            b = st.copy()
            b.exc = set()
            if s.finalbody:
                f.finally_stack.append(s.finalbody)
            tb = self.block(f, s.body, b)
            if not tb:
                tb = self.block(f, s.orelse, b)
            inner = set(b.exc)
            outs = [] if tb else [b]
            terms = [tb] if tb else []
            for h in s.handlers:
                hb = pre.copy()                       # the body stopped anywhere: nothing of it is definite
                hb.exc = set()
                for r in b.reads:
                    if r not in hb.reads:
                        hb.reads.append(r)
                hb.may |= b.may
                hb.dirty |= b.dirty
                th = self.block(f, h.body, hb)
                inner |= hb.exc
                if th:
                    terms.append(th)
                    b.reads = [*b.reads, *[r for r in hb.reads if r not in b.reads]]
                    b.may |= hb.may
                else:
                    outs.append(hb)
            if s.finalbody:
                f.finally_stack.pop()
            # normal continuation: merge of the completed body and the completed handlers
            for o in [b] + outs:
                for r in o.reads:
                    if r not in st.reads:
                        st.reads.append(r)
                st.may |= o.may
            if outs:
                st.must = set.intersection(*[o.must for o in outs])
                st.dirty = set().union(*[o.dirty for o in outs])
                st.vals = {k: v for k, v in outs[0].vals.items() if all(o.vals.get(k) == v for o in outs)}
            # exceptional continuation: through `finally`, which may restore
            if s.finalbody and inner:
                fs = pre.copy()
                fs.dirty, fs.exc = set(inner), set()
                self.block(f, s.finalbody, fs)
                st.exc = pre.exc | fs.dirty | fs.exc
            else:
                st.exc = pre.exc | inner
            t = self.block(f, s.finalbody, st)
            if t:
                return t
            if not outs:
                return terms[0] if len(set(terms)) == 1 else "return" if "return" in terms else terms[0]
        elif isinstance(s, ast.With):
            for it in s.items:
                self.expr(f, it.context_expr, st)
                if it.optional_vars is not None:
                    self.target(f, it.optional_vars, st)
            return self.block(f, s.body, st)
        elif isinstance(s, (ast.FunctionDef, ast.ClassDef)):
            if isinstance(s, ast.ClassDef):
                raise TranslationFailure("class definition inside a method")
            for d in s.decorator_list:
                self.expr(f, d, st)
            inner = st.copy()
            # a `return` of the nested function is not an exit of the enclosing method: its exits are recorded and dropped
            n_exits, n_dirty, n_ret, fstack = len(f.exits), len(f.exit_dirty), len(f.ret_self), f.finally_stack
            f.finally_stack = []
            self.block(f, s.body, inner)     # may run later, any number of times
            del f.exits[n_exits:], f.exit_dirty[n_dirty:], f.ret_self[n_ret:]
            f.finally_stack = fstack
            st.absorb_may(inner)
        elif isinstance(s, ast.Assert):
            self.expr(f, s.test, st)
        elif isinstance(s, (ast.Pass, ast.Import, ast.ImportFrom, ast.Global, ast.Nonlocal)):
            pass
        else:
            raise TranslationFailure(f"{f.node.name}: unsupported statement {type(s).__name__}")
        return None

    @staticmethod
    def forget_stored(node, st):
        for n in ast.walk(node):
            if isinstance(n, ast.Name) and isinstance(n.ctx, (ast.Store, ast.Del)):
                st.vals.pop(n.id, None)

    def const_test(self, f, t):
        if isinstance(t, ast.Constant):
            return bool(t.value)
        if isinstance(t, ast.Name) and t.id in f.consts:
            return bool(f.consts[t.id])
        if isinstance(t, ast.UnaryOp) and isinstance(t.op, ast.Not):
            c = self.const_test(f, t.operand)
            return None if c is None else not c
        if isinstance(t, ast.Compare) and len(t.ops) == 1 and isinstance(t.left, ast.Name) and t.left.id in f.consts \
                and isinstance(t.comparators[0], ast.Constant) and t.comparators[0].value is None:
            if isinstance(t.ops[0], ast.Is):
                return f.consts[t.left.id] is None
            if isinstance(t.ops[0], ast.IsNot):
                return f.consts[t.left.id] is not None
        return None

    # ---- targets
    def self_attr(self, f, e):
        """`self.x` (or `clf.x`, or `self.fit(..).x`) -> "x" """
        if isinstance(e, ast.Attribute) and isinstance(e.value, ast.Name) and e.value.id in f.selfnames:
            return e.attr
        return None

    def target(self, f, t, st, aug=False):
        if isinstance(t, (ast.Tuple, ast.List)):
            for e in t.elts:
                self.target(f, e, st)
        elif isinstance(t, ast.Starred):
            self.target(f, t.value, st)
        elif isinstance(t, ast.Name):
            st.vals.pop(t.id, None)
        elif isinstance(t, ast.Attribute):
            a = self.self_attr(f, t)
            if a is not None:
                st.write(a)
            else:
                root = self.root_attr(f, t.value)
                self.expr(f, t.value, st)
                if root is not None:
                    st.write(root, definite=False)      # self.x.y = ..  mutates the object in x
        elif isinstance(t, ast.Subscript):
            root = self.root_attr(f, t.value)
            self.expr(f, t.value, st)
            self.expr(f, t.slice, st)
            if root is not None:
                st.write(root, definite=False)          # self.x[i] = ..
        else:
            raise TranslationFailure(f"{f.node.name}: unsupported assignment target")

    def root_attr(self, f, e):
        """the self attribute an access path starts from: self.x[i].y -> x"""
        while isinstance(e, (ast.Attribute, ast.Subscript)):
            a = self.self_attr(f, e)
            if a is not None:
                return a
            e = e.value
        return None

    # ---- expressions
    def is_self_expr(self, f, e):
        if isinstance(e, ast.Name):
            return e.id in f.selfnames
        if isinstance(e, ast.Call) and isinstance(e.func, ast.Attribute):
            r = self.resolve_call(f, e)
            if r is not None and r[0] == "method":
                _, owner, fn, _ = r
                consts = self.bind(fn, e, skip_self=False)
                return self.summary(fn, owner, owner.module, {fn.args.args[0].arg}, consts).returns_self
        return False

    def resolve_call(self, f, call):
        """classify a call whose func is an Attribute: ('method', owner, fn, explicit_self) | ('extmethod', name) | None"""
        fa = call.func
        v = fa.value
        if isinstance(v, ast.Call) and isinstance(v.func, ast.Name) and v.func.id == "super" and not v.args:
            if f.owner is None:
                raise TranslationFailure("super() outside a class")
            r = self.resolve(fa.attr, after=f.owner)
        elif isinstance(v, ast.Name) and v.id in f.selfnames:
            r = self.resolve(fa.attr)
            if r is None:
                return None
        elif isinstance(v, ast.Call) and self.is_self_expr(f, v):
            r = self.resolve(fa.attr)
            if r is None:
                return None
        elif isinstance(v, ast.Name) and call.args and isinstance(call.args[0], ast.Name) and call.args[0].id in f.selfnames:
            c = self.w.resolve_name(f.module, v.id)
            if not isinstance(c, ClassInfo) or c not in self.mro:
                raise TranslationFailure(f"{f.node.name}: {v.id}.{fa.attr}(self, ..) on a class outside the MRO")
            r = self.resolve(fa.attr, start=c)
            if r is None:
                raise TranslationFailure(f"{v.id}.{fa.attr} not found")
            if r[0] == "ext":
                return ("extmethod", fa.attr)
            return ("method", r[0], r[1], True)
        else:
            return None
        if r is None:
            raise TranslationFailure(f"{f.node.name}: super().{fa.attr} not found")
        if r[0] == "ext":
            if fa.attr not in EXTERNAL_METHODS:
                raise TranslationFailure(f"{f.node.name}: call to unmodelled inherited method {fa.attr}")
            return ("extmethod", fa.attr)
        return ("method", r[0], r[1], False)

    def bind(self, fn, call, skip_self):
        """constant arguments / defaults of a call -> {param: value}"""
        a = fn.args
        params = [x.arg for x in a.args][1:]       # without self
        consts = {}
        defaults = a.defaults
        names = [x.arg for x in a.args]
        for nme, dv in zip(names[len(names) - len(defaults):], defaults):
            if isinstance(dv, ast.Constant):
                consts[nme] = dv.value
        pos = call.args[1:] if skip_self else call.args
        if any(isinstance(x, ast.Starred) for x in pos) or any(k.arg is None for k in call.keywords):
            return {}
        for p, v in zip(params, pos):
            consts.pop(p, None)
            if isinstance(v, ast.Constant):
                consts[p] = v.value
        for k in call.keywords:
            consts.pop(k.arg, None)
            if isinstance(k.value, ast.Constant):
                consts[k.arg] = k.value.value
        return consts

    def expr(self, f, e, st, allow_self=False):
        if e is None:
            return
        if isinstance(e, ast.Name):
            if e.id in f.selfnames and not allow_self:
                raise TranslationFailure(f"{f.node.name}: the estimator escapes (line {e.lineno})")
            return
        if isinstance(e, ast.Constant):
            return
        if isinstance(e, ast.Attribute):
            a = self.self_attr(f, e)
            if a is not None:
                self.read_attr(f, a, st)
                return
            if isinstance(e.value, ast.Call) and self.is_self_expr(f, e.value):
                self.expr(f, e.value, st)           # self.fit(X, y).labels_
                self.read_attr(f, e.attr, st)
                return
            if isinstance(e.value, ast.Name) and e.value.id in ("np", "numpy") and e.attr == "random":
                st.read(GLOBAL_RNG)      # np.random.<anything>: numpy's global generator (state left by earlier calls)
            self.expr(f, e.value, st)
            return
        if isinstance(e, ast.Call):
            return self.call(f, e, st)
        if isinstance(e, ast.Lambda):
            inner = st.copy()
            self.expr(f, e.body, inner)
            st.absorb_may(inner)
            return
        if isinstance(e, (ast.ListComp, ast.SetComp, ast.GeneratorExp, ast.DictComp)):
            self.expr(f, e.generators[0].iter, st)
            inner = st.copy()
            for i, g in enumerate(e.generators):
                if i:
                    self.expr(f, g.iter, inner)
                self.target(f, g.target, inner)
                for c in g.ifs:
                    self.expr(f, c, inner)
            if isinstance(e, ast.DictComp):
                self.expr(f, e.key, inner)
                self.expr(f, e.value, inner)
            else:
                self.expr(f, e.elt, inner)
            st.absorb_may(inner)
            return
        if isinstance(e, ast.IfExp):
            self.expr(f, e.test, st)
            c = self.const_test(f, e.test)
            if c is True:
                return self.expr(f, e.body, st)
            if c is False:
                return self.expr(f, e.orelse, st)
            for br in (e.body, e.orelse):
                inner = st.copy()
                self.expr(f, br, inner)
                st.absorb_may(inner)
            return
        if isinstance(e, ast.BoolOp):
            self.expr(f, e.values[0], st)
            for v in e.values[1:]:
                inner = st.copy()
                self.expr(f, v, inner)
                st.absorb_may(inner)
            return
        if isinstance(e, ast.NamedExpr):
            self.expr(f, e.value, st)
            return
        if isinstance(e, (ast.Yield, ast.YieldFrom, ast.Await, ast.Starred, ast.UnaryOp, ast.BinOp, ast.Compare, ast.Subscript,
                          ast.Slice, ast.Tuple, ast.List, ast.Set, ast.Dict, ast.JoinedStr, ast.FormattedValue, ast.keyword)):
            for child in ast.iter_child_nodes(e):
                if isinstance(child, (ast.expr, ast.keyword)):
                    self.expr(f, child, st)
            return
        if isinstance(e, (ast.expr_context, ast.operator, ast.cmpop, ast.unaryop, ast.boolop)):
            return
        raise TranslationFailure(f"{f.node.name}: unsupported expression {type(e).__name__}")

    def read_attr(self, f, a, st):
        if a.startswith("__") and a.endswith("__"):
            return                                   # self.__class__ etc.: not instance state
        r = self.resolve(a)
        if r is not None and r[0] != "ext":          # bound method used as a value: may be called any number of times
            owner, fn = r
            s = self.summary(fn, owner, owner.module, {fn.args.args[0].arg}, {})
            inner = st.copy()
            self.apply(inner, s)
            st.absorb_may(inner)
            return
        if r is not None:
            return
        st.read(a)

    def call(self, f, e, st):
        fn = e.func
        # ---- plain function name
        if isinstance(fn, ast.Name):
            selfpos = [i for i, a in enumerate(e.args) if isinstance(a, ast.Name) and a.id in f.selfnames]
            selfkw = [k.arg for k in e.keywords if isinstance(k.value, ast.Name) and k.value.id in f.selfnames]
            for a in e.args:
                self.expr(f, a, st, allow_self=True)
            for k in e.keywords:
                self.expr(f, k.value, st, allow_self=True)
            if fn.id == "super":
                raise TranslationFailure(f"{f.node.name}: bare super() value")
            if not selfpos and not selfkw:
                return
            if fn.id in ("getattr", "hasattr", "setattr", "delattr") and selfpos == [0]:
                if len(e.args) < 2 or not (isinstance(e.args[1], ast.Constant) and isinstance(e.args[1].value, str)):
                    raise TranslationFailure(f"{f.node.name}: {fn.id}(self, <computed name>)")
                nm = e.args[1].value
                if fn.id in ("getattr", "hasattr"):
                    self.read_attr(f, nm, st)
                else:
                    st.write(nm)
                return
            if fn.id in HARMLESS_BUILTINS:
                return
            r = self.w.resolve_name(f.module, fn.id)
            if isinstance(r, tuple) and r[0] == "func":
                _, mod, node = r
                params = [x.arg for x in node.args.args]
                names = set()
                for i in selfpos:
                    if i >= len(params):
                        raise TranslationFailure(f"{fn.id}: estimator passed through *args")
                    names.add(params[i])
                for k in selfkw:
                    names.add(k)
                consts = {}
                s = self.summary(node, None, mod, names, consts)
                self.apply(st, s)
                return
            if isinstance(r, tuple) and r[0] == "ext" and r[1] in EXTERNAL_FUNCS:
                self.apply(st, self.expand(EXTERNAL_FUNCS[r[1]]))
                return
            raise TranslationFailure(f"{f.node.name}: the estimator is passed to unmodelled function {fn.id} ({r})")
        # ---- attribute call
        if isinstance(fn, ast.Attribute):
            r = self.resolve_call(f, e)
            if r is not None:
                if isinstance(fn.value, ast.Call) and not (isinstance(fn.value.func, ast.Name) and fn.value.func.id == "super"):
                    self.expr(f, fn.value, st)      # self.fit(..).predict(..): inner call first
                args = e.args[1:] if (r[0] == "method" and r[3]) else e.args
                for a in args:
                    self.expr(f, a, st)
                for k in e.keywords:
                    self.expr(f, k.value, st)
                if r[0] == "extmethod":
                    if any(k.arg is None for k in e.keywords) and fn.attr == "set_params":
                        raise TranslationFailure(f"{f.node.name}: set_params(**computed)")
                    if fn.attr == "set_params" and e.args:
                        raise TranslationFailure(f"{f.node.name}: set_params with positional arguments")
                    self.apply(st, self.expand(EXTERNAL_METHODS[fn.attr], [k.arg for k in e.keywords]))
                    if fn.attr == "set_params":      # restore half of the save / restore idiom: set_params(a=v), v holds a's entry value
                        for k in e.keywords:
                            if isinstance(k.value, ast.Name) and st.vals.get(k.value.id) == k.arg:
                                st.dirty.discard(k.arg)
                    return
                _, owner, node, explicit = r
                consts = self.bind(node, e, skip_self=explicit)
                s = self.summary(node, owner, owner.module, {node.args.args[0].arg}, consts)
                self.apply(st, s)
                return
            # self.x(...)  where x is not a method: a stored callable
            a = self.self_attr(f, fn)
            if a is not None:
                if a not in self.known_attrs:
                    raise TranslationFailure(f"{f.node.name}: self.{a}(..) is neither a method nor a known attribute")
                st.read(a)
                for x in e.args:
                    self.expr(f, x, st)
                for k in e.keywords:
                    self.expr(f, k.value, st)
                return
            # np.copyto(self.x, ..)
            if isinstance(fn.value, ast.Name) and fn.value.id in ("np", "numpy") and fn.attr == "copyto" and e.args:
                root = self.root_attr(f, e.args[0]) if isinstance(e.args[0], (ast.Attribute, ast.Subscript)) else None
                for x in e.args:
                    self.expr(f, x, st)
                for k in e.keywords:
                    self.expr(f, k.value, st)
                if root is not None:
                    st.write(root, definite=False)
                return
            # self.x.method(..) : object stored in an attribute
            root = self.root_attr(f, fn.value)
            self.expr(f, fn.value, st)
            for x in e.args:
                self.expr(f, x, st, allow_self=False)
            for k in e.keywords:
                self.expr(f, k.value, st)
            if root is not None:
                direct = self.self_attr(f, fn.value)
                typ = self.attr_types.get(direct) if direct else None
                if typ is not None and fn.attr in typ.methods:
                    sub = Analysis.__new__(Analysis)
                    sub.w, sub.cls, sub.mro, sub.memo, sub.active = self.w, typ, typ.mro, {}, set()
                    sub.hyper, sub.attr_types, sub.known_attrs = [], {}, set()
                    m = typ.methods[fn.attr]
                    s = sub.summary(m, typ, typ.module, {m.args.args[0].arg}, {})
                    if s.may:
                        st.write(root, definite=False)
                elif fn.attr not in PURE_METHODS:
                    st.write(root, definite=False)
            return
        # ---- anything else being called
        self.expr(f, fn, st)
        for x in e.args:
            self.expr(f, x, st)
        for k in e.keywords:
            self.expr(f, k.value, st)

    # ---- public API
    def frame(self, method):
        r = self.resolve(method)
        if r is None or r[0] == "ext":
            return None
        owner, fn = r
        s = self.summary(fn, owner, owner.module, {fn.args.args[0].arg}, {})
        return {"owner": owner.name, "reads": list(s.reads), "writes": sorted(s.may), "net": sorted(s.dirty),
                "netExc": sorted(s.exc - s.dirty), "must": sorted(s.must)}

    def public_methods(self):
        names = []
        for c in self.mro:
            if isinstance(c, ClassInfo):
                for m in c.methods:
                    if (not m.startswith("_") or m == "__init__") and m not in names:
                        names.append(m)
        return [m for m in CORE_METHODS if m in names] + sorted(m for m in names if m not in CORE_METHODS)

    def init_stores(self):
        """symbolic run of the constructor chain: attr -> ('param', name) | ('const', repr)"""
        owner, fn = self.resolve("__init__")
        stores = {}
        self._run_init(owner, fn, {p: ("param", p) for p in self.hyper}, stores, 0)
        return stores

    def _run_init(self, owner, fn, env, stores, depth):
        if depth > 10:
            raise TranslationFailure("constructor chain too deep")
        selfname = fn.args.args[0].arg

        def val(v):
            if isinstance(v, ast.Constant):
                return ("const", repr(v.value))
            if isinstance(v, ast.Name) and v.id in env:
                return env[v.id]
            raise TranslationFailure(f"{owner.name}.__init__: argument expression {ast.unparse(v)} is not a parameter or constant")
        for i, s in enumerate(fn.body):
            if i == 0 and isinstance(s, ast.Expr) and isinstance(s.value, ast.Constant) and isinstance(s.value.value, str):
                continue
            if isinstance(s, ast.Pass):
                continue
            if isinstance(s, ast.Assign) and len(s.targets) == 1 and isinstance(s.targets[0], ast.Attribute) \
                    and isinstance(s.targets[0].value, ast.Name) and s.targets[0].value.id == selfname:
                stores[s.targets[0].attr] = val(s.value)
                continue
            if isinstance(s, ast.Expr) and isinstance(s.value, ast.Call) and isinstance(s.value.func, ast.Attribute) \
                    and s.value.func.attr == "__init__":
                call = s.value
                v = call.func.value
                if isinstance(v, ast.Call) and isinstance(v.func, ast.Name) and v.func.id == "super" and not v.args:
                    r = self.resolve("__init__", after=owner)
                    pos = call.args
                elif isinstance(v, ast.Name) and call.args and isinstance(call.args[0], ast.Name) and call.args[0].id == selfname:
                    c = self.w.resolve_name(owner.module, v.id)
                    if not isinstance(c, ClassInfo) or c not in self.mro:
                        raise TranslationFailure(f"{owner.name}.__init__: {v.id}.__init__ outside the MRO")
                    r = self.resolve("__init__", start=c)
                    pos = call.args[1:]
                else:
                    raise TranslationFailure(f"{owner.name}.__init__: unsupported constructor call")
                if r is None or r[0] == "ext":
                    if call.args[1:] or call.keywords:
                        raise TranslationFailure(f"{owner.name}.__init__: arguments to an external constructor")
                    continue
                o2, f2 = r
                a = f2.args
                if a.vararg or a.kwarg or a.kwonlyargs:
                    raise TranslationFailure(f"{o2.name}.__init__: *args/**kwargs")
                params = [x.arg for x in a.args][1:]
                env2 = {}
                for nme, dv in zip(params[len(params) - len(a.defaults):], a.defaults):
                    if not isinstance(dv, ast.Constant):
                        raise TranslationFailure(f"{o2.name}.__init__: non-constant default for {nme}")
                    env2[nme] = ("const", repr(dv.value))
                if any(isinstance(x, ast.Starred) for x in pos) or any(k.arg is None for k in call.keywords):
                    raise TranslationFailure(f"{owner.name}.__init__: star arguments")
                for p, x in zip(params, pos):
                    env2[p] = val(x)
                for k in call.keywords:
                    if k.arg not in params:
                        raise TranslationFailure(f"{owner.name}.__init__: unexpected keyword {k.arg}")
                    env2[k.arg] = val(k.value)
                for p in params:
                    if p not in env2:
                        raise TranslationFailure(f"{owner.name}.__init__: parameter {p} of {o2.name} not supplied")
                self._run_init(o2, f2, env2, stores, depth + 1)
                continue
            raise TranslationFailure(f"{owner.name}.__init__: statement `{ast.unparse(s)[:60]}` is neither a store nor a parent constructor call")


# ================================================================== unit
def _lst(xs):
    return "[" + ", ".join(lean_str(x) for x in xs) + "]"


def frames(repo=None):
    """-> (python_data, lean_text)"""
    w = World(repo)
    ests = w.estimators()
    if not ests:
        raise TranslationFailure("no estimator class found")
    data = {"classes": [], "mro": {}, "hyper": {}, "init": {}, "frames": {}, "owners": {}}
    for ci in ests:
        an = Analysis(w, ci)
        data["classes"].append(ci.name)
        data["mro"][ci.name] = [c.name if isinstance(c, ClassInfo) else c for c in ci.mro]
        data["hyper"][ci.name] = list(an.hyper)
        data["init"][ci.name] = an.init_stores()
        for m in an.public_methods():
            fr = an.frame(m)
            if fr is not None:
                data["frames"][(ci.name, m)] = fr
    L = ["/- GENERATED by translator/frames.py from gemclus/**/*.py (static MRO + dataflow) — do not edit. -/",
         "import GemVerif.Model.Frames", "", "namespace GemVerif.Gen", "open GemVerif.Model.Frames", "",
         "/-- estimator classes exported by gemclus.{linear,mlp,sparse,nonparametric,tree} -/",
         "def estimatorClasses : List String := " + _lst(data["classes"]), "",
         "/-- statically computed method resolution order (external bases are leaves) -/",
         "def mro : List (String × List String) := ["]
    L.append(",\n".join(f"  ({lean_str(c)}, {_lst(data['mro'][c])})" for c in data["classes"]) + "]")
    L += ["", "/-- constructor parameters (= `get_params()` keys), in signature order -/",
          "def hyperparams : List (String × List String) := ["]
    L.append(",\n".join(f"  ({lean_str(c)}, {_lst(data['hyper'][c])})" for c in data["classes"]) + "]")
    L += ["", "/-- what the constructor chain stores: (class, attribute, \"param\" | \"const\", parameter name | literal) -/",
          "def initStores : List InitStore := ["]
    rows = []
    for c in data["classes"]:
        for a in sorted(data["init"][c]):
            k, v = data["init"][c][a]
            rows.append(f"  ⟨{lean_str(c)}, {lean_str(a)}, {lean_str(k)}, {lean_str(v)}⟩")
    L.append(",\n".join(rows) + "]")
    L += ["", "/-- per (class, public method): attributes read before written / possibly written at some moment /\n    possibly different at a normal exit from their value at entry / additionally possibly different when the call\n    raises / definitely written on a normal return -/",
          "def frames : List Frame := ["]
    rows = []
    for (c, m), fr in data["frames"].items():
        rows.append(f"  ⟨{lean_str(c)}, {lean_str(m)},\n    {_lst(fr['reads'])},\n    {_lst(fr['writes'])},\n    {_lst(fr['net'])},\n    {_lst(fr['netExc'])},\n    {_lst(fr['must'])}⟩")
    L.append(",\n".join(rows) + "]")
    L += ["", "/-- everything above as one value -/",
          "def frameTables : Tables := ⟨estimatorClasses, hyperparams, initStores, frames⟩",
          "", "end GemVerif.Gen", ""]
    return data, "\n".join(L)


if __name__ == "__main__":
    import sys
    d, t = frames()
    if "--lean" in sys.argv:
        print(t)
    else:
        for (c, m), fr in d["frames"].items():
            print(f"{c}.{m} [{fr['owner']}]\n   reads  {fr['reads']}\n   writes {fr['writes']}\n   net    {fr['net']}\n   netExc {fr['netExc']}\n   must   {fr['must']}")
        for c in d["classes"]:
            print(c, d["hyper"][c], d["init"][c])
