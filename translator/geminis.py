"""NumPy-expression translator for the `evaluate` methods of the GEMINI objectives (properties C01, C02, C13).

Reads the CURRENT sources of /repo with python `ast` (gemclus is never imported) and emits
`lean/GemVerif/Gen/Geminis.lean`: FOUR `def`s per class, one per (ovo, return_grad) combination, the two tests
`if self.ovo:` / `if return_grad:` being folded as constants, over the untyped array DSL of `GemVerif/Np.lean` +
`GemVerif/Np2.lean`.  Props/C01Gen.lean proves every generated definition equal (no NumPy error, same shape, same
entries) to the hand model of Model/Gemini.lean that the C01 / C02 / C13 theorems are stated about.

Units: `<cls>_<ova|ovo>` (return_grad=False) : Arr α                  — the score, a 0-d array,
       `<cls>_<ova|ovo>_grad` (return_grad=True) : Arr α × Arr α        — (score, gradient),
for cls in kl, tv, hellinger, chi2, mmd; parameters, in this FIXED order: `(epsilon : α) (y_pred affinity : Arr α)`
(`self.epsilon`, then the arguments of `evaluate`; the f-divergences never read `affinity`).
All 20 units are translated (NOT_TRANSLATED below is empty; an entry there would leave a pair of units to the differential
check only).  WassersteinGEMINI (Python loops, `ot.emd2`) is translated by `wass.py`, which builds on this module.

Modelling conventions (see also Np2.lean):
  * `y_pred` and `affinity` are 2-D arrays; the number of dimensions of every other value follows statically.  A 0-d
    array is stored as a `(1, 1)` `Arr`, a 1-D array `(m,)` as `(1, m)`; reductions, `np.diag`, `np.dot`, `.reshape`,
    `.squeeze` are translated to the operation for the static number of dimensions, which re-checks the stored shape.
  * Python scalars: `self.epsilon` is `epsilon : α`; the literals 0, 1 are `0`, `1`, another non-negative integer k is
    `nat k`, 0.5 is `half` (= 1 / nat 2); `x.shape[i]` / `len(x)` are `Nat`s, converted with `nat` where they enter
    arithmetic; Python-int arithmetic (`N ** 2`) is carried out in α after that conversion (exact below 2**53);
    `x ** 2` is `x * x`.
  * Boolean arrays (`>`, `<`, `==` against a scalar, `&`) are `Arr Bool`; in arithmetic they become 0/1 (`Arr.ofMask`).
  * Every rebinding of a name gets a fresh Lean name (`gradient`, `gradient_1`, …); in-place updates (`x op= e`,
    `x[mask] = s`, `x[:, mask] = s`, `np.fill_diagonal(x, s)`) are accepted only on a variable that owns a fresh array (no parameter, no view,
    not viewed by another name) and are checked to keep the shape (`Arr.inPlace`).
  * The returned arrays are wrapped in `Arr.checked flags`, `flags` = conjunction of the `ok` of every array bound on
    the executed path: a NumPy shape error ANYWHERE makes the result not `Eqv` to anything.  `flags` also holds
    `(N != 0)` for every division `x / N` between PYTHON scalars by a shape entry (`1 / N` raises ZeroDivisionError
    for an empty batch, where NumPy arrays would only warn).
  * 3-D arrays (one-vs-one TV) are `Arr3 α` values: `np.expand_dims`, `np.repeat(x, n, axis=0)`, batched `@`,
    `np.transpose(x, axes=[0, 2, 1])`, `+ - * /`, `np.sign`, `np.abs`, `/ scalar`, `.mean(0)` / `.sum(0)`,
    `np.squeeze(x, axis=1|2)`; a 2-D array meeting a 3-D one is broadcast as `(1, r, c)`.

Accepted: straight-line code of assignments / augmented assignments / the masked assignments and `np.fill_diagonal` above /
`return` (also an early one inside a folded branch), `if <test>:` (with optional `else` / `elif`) and `a if <test> else b`
for tests made of `self.ovo`, `return_grad`, `not`, `and`, `or`, `True`, `False` (all folded), doc-strings, `pass`; calls
`f(…)` of a top-level function `f` of the same file (bound exactly once in the module, undecorated, plain positional
parameters) whose body is itself in this fragment and reads nothing but its parameters: the body is INLINED in a scope of its
own (see `Unit.inline`); `self.m(…)` of a private helper METHOD `m` of the translated class itself (bound exactly once in
its class body, in no other class of the file, never stored as an attribute; an ordinary method or a `@staticmethod`): inlined
the same way (see `Unit.method_helper`); an ordinary method may read `self.epsilon` / `self.ovo`, a static one has no `self`;
the folded Booleans (`return_grad`, `self.ovo`, …) may be handed to a helper as arguments and are folded there too; a helper
may return a tuple, which the caller may return as it is or unpack (`a, b = self.m(…)`); expressions: `+ - * /` (arrays with
broadcasting, scalars), unary `-`/`+`, `@`, `np.dot`, `np.matmul`, `.dot`, `.T`, `.transpose()`, `np.transpose(x)`, `** 2`,
`&`, comparisons `array > s`, `array < s`, `s < array`, `s > array`, `array == s`; `np.clip(x, lo, hi)` (also `a_min=`,
`a_max=`), `np.log`, `np.sqrt`, `np.abs`/`np.absolute`, `np.sign`, `np.square`, `np.maximum(x, 0)`, `np.sum`/`np.mean`/
`.sum`/`.mean` with `axis` in {None, 0, 1, -1, -2} and literal `keepdims`, `np.eye(n)`, `len(x)`, `x.shape[i]`, `np.diag`,
`.reshape((1, -1))`, `.reshape((-1, 1))` (of 1-D arrays), `.squeeze()`, `.copy()`, the 3-D operations listed above, and
their other spellings: `x[np.newaxis, :]`, `x[:, np.newaxis]`, `x[:, np.newaxis, :]`, `x[:, :, np.newaxis]`, … (ONE `np.newaxis` /
`None` among full slices `:` only = `np.expand_dims`), `np.swapaxes(x, 1, 2)` of a 3-D array (= `np.transpose(x, axes=[0, 2, 1])`),
`np.swapaxes(x, 0, 1)` of a 2-D one (= `.T`).
Integer dtypes: `y_pred`, `affinity` (and the weight matrices of prox.py) are float arrays.  Every value carries `mi` = "its
dtype / Python type MAY be an integer one" (integer literals, Boolean arrays in arithmetic, `np.full(shape, <int>)`,
`np.where(m, <int>, <int>)`, `np.arange(k)`, and whatever NumPy's promotion derives from them; unknown Python scalars such
as `alpha` count as possibly integer).  An in-place update of such an array is refused (NumPy would raise or truncate), and
`x[mask] = s` / `np.fill_diagonal(x, s)` into one accepts integer literals only.
Anything else raises TranslationFailure: the tie is then reported broken.
"""
import ast

from . import tables
from .tables import TranslationFailure
from .nets import lean_ident as _lean_ident

FILES = ["gemclus/gemini/_fdivergences.py", "gemclus/gemini/_geomdistances.py"]
CLASSES = [("kl", "KLGEMINI"), ("tv", "TVGEMINI"), ("hellinger", "HellingerGEMINI"), ("chi2", "ChiSquareGEMINI"),
           ("mmd", "MMDGEMINI")]
# (short class name, ovo) -> why the pair of units is left to the differential check
NOT_TRANSLATED = {}
SCALAR_ATTRS = {"epsilon"}
FLAG_ATTR = "ovo"
ARGS = ["y_pred", "affinity", "return_grad"]
RESERVED = {"half", "nat", "sumTo", "ofBool", "flags"}

BINOPS = {ast.Add: ("add", "+"), ast.Sub: ("sub", "-"), ast.Mult: ("mul", "*"), ast.Div: ("div", "/")}
ARR_SCAL = {"add": "adds", "sub": "subs", "mul": "muls", "div": "divs"}
SCAL_ARR = {"add": "radds", "sub": "rsubs", "mul": "smul", "div": "rdivs"}
UNARY_NP = {"log": "log", "sqrt": "sqrt", "abs": "abs", "absolute": "abs", "sign": "sign", "square": "square"}


def unit_name(short, ovo, grad):
    return f"{short}_{'ovo' if ovo else 'ova'}{'_grad' if grad else ''}"


class Val:
    """a translated value.  kind: 'arr' (float array, `nd` dimensions), 'mask' (Boolean array), 'scal' (α), 'nat' (Nat),
    'tuple' (term = list of Val), 'bool' (a folded Python Boolean, `lit`: only as argument / parameter of an inlined helper).
    `fresh`: a newly allocated array nobody else refers to; `roots`: the variables whose memory the value may share (views)."""

    def __init__(self, kind, term, nd=None, fresh=False, roots=(), lit=None, mi=None):
        self.kind, self.term, self.nd, self.fresh, self.roots = kind, term, nd, fresh, frozenset(roots)
        self.lit = lit                    # the value of a literal scalar
        # "may be integer": the NumPy dtype of an array / the Python type of a scalar may be an integer one (only then do
        # `x[mask] = 0.5` truncate and `x /= 2` raise).  None on an array = derive from the sub-expressions (see `tracked`).
        self.mi = mi


def tracked(fn):
    """wraps `Unit.expr`: an array value whose `mi` was not decided by the rule that built it may have an integer dtype
    as soon as one of its direct sub-expressions may (sound default for every dtype-preserving operation; the arithmetic
    rules, the allocations and the literals decide for themselves)"""
    def expr(self, e):
        self.mi_stack.append([])
        try:
            v = fn(self, e)
        finally:
            kids = self.mi_stack.pop()
        if v.kind == "arr" and v.mi is None:
            v.mi = any(kids)
        if self.mi_stack:
            self.mi_stack[-1].append(bool(v.mi) if v.kind == "arr" else False)
        return v
    expr.__doc__ = fn.__doc__
    return expr


def may_be_int(v):
    """of a Python scalar / shape entry / array"""
    if v.kind == "nat":
        return True
    if v.kind == "scal":
        return True if v.mi is None else v.mi       # parameters and attributes: unknown Python numbers
    return bool(v.mi)


class Returned(Exception):
    pass


class Unit:
    ovo = None                            # the folded configuration flags (None: the unit has none, see prox.py)
    grad = None
    methods = {}                          # helper methods of the class (none for the module-level units of prox.py)
    tuples_ok = False                     # inlined helpers may return tuples (prox.py has pairs of its own)

    def __init__(self, rel, tree, numpy_names, short, cls, ovo, grad):
        self.rel, self.short, self.cls, self.ovo, self.grad = rel, short, cls, ovo, grad
        self.numpy = numpy_names
        self.helpers = module_helpers(tree)
        self.tuples_ok = True
        self.methods = class_helpers(tree, cls)   # private helper methods of the class that `self.m(…)` certainly means
        # [name of the helper function being inlined (`self.<m>` for a method), its returned Val, has `self`, its FunctionDef]
        self.scopes = []
        self.mi_stack = []
        self.lean_name = unit_name(short, ovo, grad)
        self.where = f"{cls}.evaluate[ovo={ovo}, return_grad={grad}]"
        node = next((n for n in tree.body if isinstance(n, ast.ClassDef) and n.name == cls), None)
        if node is None:
            self.fail(f"class {cls} not found")
        fns = [f for f in node.body if isinstance(f, ast.FunctionDef) and f.name == "evaluate"]
        if len(fns) != 1:
            self.fail("expected exactly one `evaluate` in the class body")
        self.fn = fns[0]
        if self.fn.decorator_list:
            self.fail("decorated method")
        check_plain_function(self, self.fn)
        self.pynames = {n.id for n in ast.walk(self.fn) if isinstance(n, ast.Name)} | {a.arg for a in self.fn.args.args}
        self.used = set()                 # Lean names in use
        self.lets = []                    # (lean name, term)
        self.oks = []                     # Lean names of bound arrays / masks
        self.checks = []                  # Boolean Lean terms: conditions under which Python itself does not raise
        self.env = {}                     # python name -> Val
        self.aliased = set()              # python names whose array is (or may be) shared
        self.result = None

    # ------------------------------------------------------------ helpers
    def fail(self, msg, node=None):
        ln = f" (line {node.lineno})" if node is not None and hasattr(node, "lineno") else ""
        raise TranslationFailure(f"{self.rel}::{self.where}{ln}: {msg}")

    def is_np(self, f, names):
        return isinstance(f, ast.Attribute) and isinstance(f.value, ast.Name) and f.value.id in self.numpy \
            and f.attr in names and f.value.id not in self.env

    def fresh_name(self, py):
        base = _lean_ident(py)
        if base in RESERVED:
            base = "py_" + base
        name, k = base, 0
        while name in self.used or (k > 0 and name in self.pynames):
            k += 1
            name = f"{base}_{k}"
        self.used.add(name)
        return name

    def scal(self, v, node, what):
        """coerce to a scalar term"""
        if v.kind == "scal":
            return v.term
        if v.kind == "nat":
            return f"(nat {v.term})"
        self.fail(f"{what}: expected a Python scalar, got {self.describe(v)}", node)

    def describe(self, v):
        return f"{v.nd}-d {'Boolean ' if v.kind == 'mask' else ''}array" if v.kind in ("arr", "mask") else v.kind

    def arr(self, v, node, what, nd=(0, 1, 2)):
        """`v` must be a float array with `nd` dimensions (default: at most 2; 3-D arrays live in `Arr3`)"""
        if v.kind != "arr" or v.nd not in (nd if isinstance(nd, tuple) else (nd,)):
            self.fail(f"{what}: expected a float array with {nd} dimension(s), got {self.describe(v)}", node)
        return v

    def lift3(self, v):
        """NumPy broadcasts a 2-D array against a 3-D one as `(1, r, c)`"""
        if v.nd == 3:
            return v.term
        if v.nd == 2:
            return f"(Arr3.expandFirst {v.term})"
        return None

    def literal_int(self, e):
        if isinstance(e, ast.UnaryOp) and isinstance(e.op, ast.USub) and isinstance(e.operand, ast.Constant) \
                and type(e.operand.value) is int:
            return -e.operand.value
        if isinstance(e, ast.Constant) and type(e.value) is int:
            return e.value
        return None

    def zero(self, e):
        return isinstance(e, ast.Constant) and type(e.value) in (int, float) and e.value == 0

    def has_self(self):
        """`self` is the receiver of `evaluate`: at the top level and inside an inlined ORDINARY method of the class"""
        return not self.scopes or bool(self.scopes[-1][2])

    def newaxis(self, e):
        return (isinstance(e, ast.Constant) and e.value is None) or \
            (isinstance(e, ast.Attribute) and e.attr == "newaxis" and isinstance(e.value, ast.Name)
             and e.value.id in self.numpy and e.value.id not in self.env)

    def fold_test(self, t):
        """the value of a test made of the two folded configuration flags (`self.ovo`, `return_grad`), `not`, `and`, `or`
        and the literals True / False; None for anything else.  Both flags are Booleans (`ovo` is validated as one, the unit
        fixes `return_grad`), so truthiness is the value itself."""
        if isinstance(t, ast.Name) and t.id in self.env:
            v = self.env[t.id]            # a folded Boolean handed to an inlined helper as an argument
            return v.lit if v.kind == "bool" else None
        if isinstance(t, ast.Attribute) and isinstance(t.value, ast.Name) and t.value.id == "self" \
                and t.attr == FLAG_ATTR and "self" not in self.env and self.ovo is not None and self.has_self():
            return self.ovo               # (inside an inlined function / static method there is no `self`)
        if isinstance(t, ast.Name) and t.id == ARGS[2] and t.id not in self.env and self.grad is not None and not self.scopes:
            return self.grad              # (`return_grad` is a parameter of `evaluate` only)
        if isinstance(t, ast.Constant) and type(t.value) is bool:
            return t.value
        if isinstance(t, ast.UnaryOp) and isinstance(t.op, ast.Not):
            v = self.fold_test(t.operand)
            return None if v is None else not v
        if isinstance(t, ast.BoolOp):
            vals = [self.fold_test(x) for x in t.values]
            if any(v is None for v in vals):
                return None
            return all(vals) if isinstance(t.op, ast.And) else any(vals)
        return None

    # ------------------------------------------------------------ expressions
    def binop(self, op, l, r, node):
        if type(op) not in BINOPS:
            self.fail(f"unsupported operator {type(op).__name__}", node)
        fn, sym = BINOPS[type(op)]
        if l.kind == "mask" and r.kind == "mask":
            self.fail(f"arithmetic {sym} between two Boolean arrays", node)
        # Boolean arrays become 0/1 float arrays in arithmetic
        if l.kind == "mask":
            l = Val("arr", f"(Arr.ofMask {l.term})", l.nd, True, mi=True)
        if r.kind == "mask":
            r = Val("arr", f"(Arr.ofMask {r.term})", r.nd, True, mi=True)
        # NumPy / Python type promotion: the result is an integer only if both operands are and the operator is not `/`
        mi = fn != "div" and may_be_int(l) and may_be_int(r)
        v = self.binop0(fn, sym, l, r, node)
        v.mi = mi
        return v

    def binop0(self, fn, sym, l, r, node):
        if l.kind == "arr" and r.kind == "arr":
            if max(l.nd, r.nd) == 3:
                a, b = self.lift3(l), self.lift3(r)
                if a is None or b is None:
                    self.fail(f"{sym} between a {l.nd}-d and a {r.nd}-d array", node)
                return Val("arr", f"(Arr3.{fn} {a} {b})", 3, True)
            return Val("arr", f"(Arr.{fn} {l.term} {r.term})", max(l.nd, r.nd), True)
        if l.kind in ("scal", "nat") and r.kind in ("scal", "nat"):
            if fn == "div":
                # Python scalars: `x / 0` raises ZeroDivisionError (NumPy arrays only warn)
                if r.kind == "nat":
                    self.checks.append(f"({r.term} != 0)")
                elif not r.lit:
                    self.fail("division of Python scalars by something that is neither a shape entry nor a non-zero "
                              "literal (a ZeroDivisionError cannot be ruled in or out)", node)
            return Val("scal", f"({self.scal(l, node, sym)} {sym} {self.scal(r, node, sym)})")
        if l.kind == "arr" and r.kind in ("scal", "nat"):
            if l.nd == 3 and fn not in ("mul", "div"):
                self.fail(f"3-d array {sym} scalar", node)
            ns = "Arr3" if l.nd == 3 else "Arr"
            return Val("arr", f"({ns}.{ARR_SCAL[fn]} {l.term} {self.scal(r, node, sym)})", l.nd, True)
        if l.kind in ("scal", "nat") and r.kind == "arr":
            if r.nd == 3 and fn != "mul":
                self.fail(f"scalar {sym} 3-d array", node)
            ns = "Arr3" if r.nd == 3 else "Arr"
            return Val("arr", f"({ns}.{SCAL_ARR[fn]} {self.scal(l, node, sym)} {r.term})", r.nd, True)
        self.fail(f"unsupported operands for {sym}: {self.describe(l)}, {self.describe(r)}", node)

    def matmul(self, a, b, node, what):
        self.arr(a, node, what, (1, 2, 3))
        self.arr(b, node, what, (1, 2, 3))
        if max(a.nd, b.nd) == 3 and min(a.nd, b.nd) >= 2:
            return Val("arr", f"(Arr3.matmul {self.lift3(a)} {self.lift3(b)})", 3, True)
        if a.nd == 2 and b.nd == 2:
            return Val("arr", f"(Arr.matmul {a.term} {b.term})", 2, True)
        if a.nd == 2 and b.nd == 1:
            return Val("arr", f"(Arr.matvec {a.term} {b.term})", 1, True)
        self.fail(f"{what} between a {a.nd}-d and a {b.nd}-d array", node)

    @tracked
    def expr(self, e):
        if isinstance(e, ast.Constant):
            v = e.value
            isint = type(v) is int
            if type(v) is float and v == 0.5:
                return Val("scal", "half", lit=v, mi=False)
            if type(v) is float and v >= 0 and v == int(v) and v < 2 ** 53:
                v = int(v)
            if type(v) is int and v >= 0:
                return Val("scal", {0: "0", 1: "1"}.get(v, f"(nat {v})"), lit=v, mi=isint)
            self.fail(f"unsupported literal {v!r}", e)
        if isinstance(e, ast.Name):
            if e.id in self.env:
                v = self.env[e.id]
                if v.kind in ("arr", "mask"):
                    return Val(v.kind, v.term, v.nd, False, v.roots | {e.id}, mi=bool(v.mi))
                return v
            self.fail(f"unknown name {e.id}", e)
        if isinstance(e, ast.Attribute):
            if isinstance(e.value, ast.Name) and e.value.id == "self" and "self" not in self.env and self.has_self():
                if e.attr in SCALAR_ATTRS:
                    return Val("scal", e.attr)
                self.fail(f"read of self.{e.attr} inside an expression", e)
            if e.attr == "T":
                a = self.arr(self.expr(e.value), e, ".T", 2)
                return Val("arr", f"(Arr.transpose {a.term})", 2, False, a.roots)
            self.fail(f"unsupported attribute .{e.attr}", e)
        if isinstance(e, ast.UnaryOp):
            a = self.expr(e.operand)
            if isinstance(e.op, ast.UAdd) and a.kind in ("arr", "scal"):
                return Val(a.kind, a.term, a.nd, a.kind == "arr", mi=a.mi)
            if isinstance(e.op, ast.USub) and a.kind == "arr":
                return Val("arr", f"({'Arr3' if a.nd == 3 else 'Arr'}.neg {a.term})", a.nd, True)
            if isinstance(e.op, ast.USub) and a.kind in ("scal", "nat"):
                return Val("scal", f"(-{self.scal(a, e, 'unary -')})", mi=may_be_int(a),
                           lit=(-a.lit if a.lit is not None else None))
            self.fail(f"unsupported unary operator {type(e.op).__name__} on {self.describe(a)}", e)
        if isinstance(e, ast.BinOp):
            if isinstance(e.op, ast.MatMult):
                return self.matmul(self.expr(e.left), self.expr(e.right), e, "@")
            if isinstance(e.op, ast.Pow):
                if self.literal_int(e.right) != 2:
                    self.fail("`**` with an exponent other than the literal 2", e)
                a = self.expr(e.left)
                if a.kind in ("scal", "nat"):
                    t = self.scal(a, e, "**")
                    return Val("scal", f"({t} * {t})", mi=may_be_int(a))
                self.arr(a, e, "** 2")
                return Val("arr", f"(Arr.square {a.term})", a.nd, True)
            if isinstance(e.op, ast.BitAnd):
                l, r = self.expr(e.left), self.expr(e.right)
                if l.kind != "mask" or r.kind != "mask":
                    self.fail(f"`&` between {self.describe(l)} and {self.describe(r)}", e)
                return Val("mask", f"(Arr.band {l.term} {r.term})", max(l.nd, r.nd), True)
            l = self.expr(e.left)
            r = self.expr(e.right)
            return self.binop(e.op, l, r, e)
        if isinstance(e, ast.Compare):
            if len(e.ops) != 1:
                self.fail("chained comparison", e)
            l, r, op = self.expr(e.left), self.expr(e.comparators[0]), e.ops[0]
            if l.kind == "arr" and r.kind in ("scal", "nat") and isinstance(op, (ast.Gt, ast.Lt, ast.Eq)):
                fn = {ast.Gt: "gtS", ast.Lt: "ltS", ast.Eq: "eqS"}[type(op)]
                return Val("mask", f"(Arr.{fn} {l.term} {self.scal(r, e, 'comparison')})", l.nd, True)
            if r.kind == "arr" and l.kind in ("scal", "nat") and isinstance(op, (ast.Gt, ast.Lt)):
                fn = {ast.Gt: "ltS", ast.Lt: "gtS"}[type(op)]
                return Val("mask", f"(Arr.{fn} {r.term} {self.scal(l, e, 'comparison')})", r.nd, True)
            self.fail("unsupported comparison (only array > s, array < s, s < array, s > array, array == s)", e)
        if isinstance(e, ast.Subscript):
            # x.shape[i]
            if isinstance(e.value, ast.Attribute) and e.value.attr == "shape":
                a = self.expr(e.value.value)
                i = self.literal_int(e.slice)
                if a.kind not in ("arr", "mask") or i is None:
                    self.fail("unsupported use of .shape", e)
                return Val("nat", self.dim(a, i, e))
            # x[:, np.newaxis], x[np.newaxis, :], x[:, np.newaxis, :], x[:, :, np.newaxis], …: ONE new axis among full slices
            # (missing trailing slices are implied) — `np.expand_dims(x, <number of slices before it>)`, a view
            idx = list(e.slice.elts) if isinstance(e.slice, ast.Tuple) else [e.slice]
            if idx and all(_full_slice(x) or self.newaxis(x) for x in idx) and sum(1 for x in idx if self.newaxis(x)) == 1:
                a = self.arr(self.expr(e.value), e, "np.newaxis subscript", (1, 2))
                if len(idx) - 1 > a.nd:
                    self.fail(f"too many indices for a {a.nd}-d array", e)
                pos = next(k for k, x in enumerate(idx) if self.newaxis(x))
                if a.nd == 1:
                    return Val("arr", f"(Arr.{['reshapeRow', 'reshapeCol'][pos]} {a.term})", 2, False, a.roots)
                return Val("arr", f"(Arr3.{['expandFirst', 'expandMid', 'expandLast'][pos]} {a.term})", 3, False, a.roots)
            self.fail("unsupported subscript", e)
        if isinstance(e, ast.IfExp):
            cond = self.fold_test(e.test)
            if cond is None:
                self.fail("unsupported conditional expression (only tests made of `self.ovo`, `return_grad`, `not`, `and`, `or`)", e)
            return self.expr(e.body if cond else e.orelse)      # Python evaluates the chosen branch only
        if isinstance(e, ast.Call):
            return self.call(e)
        self.fail(f"unsupported expression {type(e).__name__}", e)

    def dim(self, a, i, node):
        if a.nd == 3 and i in (0, 1, 2, -1, -2, -3):
            return f"{a.term}.d{i % 3}"
        if a.nd == 2 and i in (0, -2):
            return f"{a.term}.r"
        if (a.nd == 2 and i in (1, -1)) or (a.nd == 1 and i in (0, -1)):
            return f"{a.term}.c"
        self.fail(f"shape[{i}] of a {a.nd}-d array", node)

    def reduce_args(self, call, pos, what):
        """(axis, keepdims) of sum / mean"""
        axis, keep = None, None
        seen = set()
        if len(pos) > 1:
            self.fail(f"{what}: positional arguments after the axis are not supported", call)
        if pos:
            axis, _ = pos[0], seen.add("axis")
        for k in call.keywords:
            if k.arg in seen or k.arg not in ("axis", "keepdims"):
                self.fail(f"{what}: unsupported argument {k.arg}", call)
            seen.add(k.arg)
            if k.arg == "axis":
                axis = k.value
            else:
                keep = k.value
        if keep is None:
            keep = False
        elif isinstance(keep, ast.Constant) and type(keep.value) is bool:
            keep = keep.value
        else:
            self.fail(f"{what}: keepdims must be a literal", call)
        if axis is not None and not (isinstance(axis, ast.Constant) and axis.value is None):
            ax = self.literal_int(axis)
            if ax is None:
                self.fail(f"{what}: the axis must be a literal integer or None", call)
            axis = ax
        else:
            axis = None
        return axis, keep

    def reduce(self, kind, a, call, pos):
        """kind in {'sum', 'mean'}"""
        self.arr(a, call, kind, (1, 2, 3))
        axis, keep = self.reduce_args(call, pos, kind)
        if a.nd == 3 and axis in (0, -3) and not keep:
            return Val("arr", f"(Arr3.{kind}Axis0 {a.term})", 2, True)
        if a.nd == 2:
            if axis is None:
                if keep:
                    self.fail(f"{kind} of everything with keepdims", call)
                return Val("arr", f"(Arr.{kind}All {a.term})", 0, True)
            if axis in (0, -2):
                return Val("arr", f"(Arr.{kind}Axis0 {a.term})", 2 if keep else 1, True)
            if axis in (1, -1):
                return Val("arr", f"(Arr.{kind}Axis1{'' if keep else 'v'} {a.term})", 2 if keep else 1, True)
        if a.nd == 1 and axis in (None, 0, -1) and not keep:
            return Val("arr", f"(Arr.{kind}Vec {a.term})", 0, True)
        self.fail(f"{kind}(axis={axis}, keepdims={keep}) of a {a.nd}-d array", call)

    def reshape(self, a, call, args):
        self.arr(a, call, ".reshape", 1)
        if len(args) == 1 and isinstance(args[0], ast.Tuple):
            args = args[0].elts
        shape = [self.literal_int(x) for x in args]
        if shape == [1, -1]:
            return Val("arr", f"(Arr.reshapeRow {a.term})", 2, False, a.roots)
        if shape == [-1, 1]:
            return Val("arr", f"(Arr.reshapeCol {a.term})", 2, False, a.roots)
        self.fail("reshape: only (1, -1) and (-1, 1)", call)

    def axis_kw(self, call, pos, what):
        """the literal `axis` of expand_dims / repeat / squeeze (positional or keyword), None when absent"""
        vals = list(pos) + [k.value for k in call.keywords if k.arg == "axis"]
        if len(vals) > 1 or len(pos) > 1 or any(k.arg != "axis" for k in call.keywords):
            self.fail(f"{what}: unsupported arguments", call)
        if not vals:
            return None
        ax = self.literal_int(vals[0])
        if ax is None:
            self.fail(f"{what}: the axis must be a literal integer", call)
        return ax

    def squeeze(self, a, call, pos):
        self.arr(a, call, "squeeze", (1, 2, 3))
        ax = self.axis_kw(call, pos, "squeeze")
        if a.nd in (1, 2) and ax is None:
            return Val("arr", f"(Arr.squeeze0 {a.term})", 0, False, a.roots)
        if a.nd == 3 and ax in (1, -2):
            return Val("arr", f"(Arr3.squeeze1 {a.term})", 2, False, a.roots)
        if a.nd == 3 and ax in (2, -1):
            return Val("arr", f"(Arr3.squeeze2 {a.term})", 2, False, a.roots)
        self.fail(f"squeeze(axis={ax}) of a {a.nd}-d array", call)

    def swapaxes(self, a, i, j, call):
        """`np.swapaxes(x, i, j)` (a view): the last two axes of a 3-D array, the two axes of a 2-D one"""
        self.arr(a, call, "swapaxes", (2, 3))
        i, j = self.literal_int(i), self.literal_int(j)
        if i is None or j is None or not (-a.nd <= i < a.nd and -a.nd <= j < a.nd):
            self.fail("swapaxes: the axes must be literal integers within the number of dimensions", call)
        if a.nd == 3 and {i % 3, j % 3} == {1, 2}:
            return Val("arr", f"(Arr3.transpose021 {a.term})", 3, False, a.roots)
        if a.nd == 2 and {i % 2, j % 2} == {0, 1}:
            return Val("arr", f"(Arr.transpose {a.term})", 2, False, a.roots)
        self.fail(f"swapaxes({i}, {j}) of a {a.nd}-d array", call)

    # ------------------------------------------------------------ pure module-level helper functions, inlined
    def inline(self, name, e, method=None):
        """`name(args)` for a function `name` defined (once, undecorated) at the top level of the same file (`method` None),
        or `self.name(args)` for a helper method of the class (`method` = "self" / "static", see `method_helper`): its body is
        translated in place, in a scope of its own holding nothing but its parameters, by the very same statement /
        expression translator — so it is accepted only when it is itself in the straight-line fragment, reads nothing but
        its parameters (no `self` — except in an ordinary method, whose `self` is the caller's —, no global but the NumPy
        module and the other top-level functions) and writes nothing but its own fresh arrays.  A parameter that receives a
        folded Boolean is folded in the body too (`if not return_grad: return value`).  Parameters are bound with `let`s (Python evaluates the arguments before the call); they are
        never `owned`, so an in-place update of an argument is refused.  A returned array that is not freshly allocated
        may share memory with ANY array argument."""
        if method is None:
            fn = self.helpers[name]
        else:
            fn, name = self.methods[name], f"self.{name}"
        if len(self.scopes) >= 8 or any(s[0] == name for s in self.scopes):
            self.fail(f"{name}(…): recursive helper function", e)
        caller = self.scopes[-1][3] if self.scopes else self.fn
        if method is None and (
                any(isinstance(n, ast.Name) and n.id == name and isinstance(n.ctx, (ast.Store, ast.Del)) for n in ast.walk(caller))
                or name in {x.arg for x in caller.args.args}):
            self.fail(f"{name}(…): the calling function binds the name {name} itself", e)
        a = fn.args
        if (method is None and fn.decorator_list) or a.vararg or a.kwarg or a.kwonlyargs or a.posonlyargs or a.defaults:
            self.fail(f"{name}(…): helper functions must be undecorated and take plain positional parameters without defaults", e)
        params = [x.arg for x in a.args]
        if method == "self":
            if not params or params[0] != "self":
                self.fail(f"{name}(…): the first parameter of the method is not called self", e)
            params = params[1:]               # the receiver: `self` of the caller
        if any(isinstance(x, ast.Starred) for x in e.args) or any(k.arg is None for k in e.keywords) or len(e.args) > len(params):
            self.fail(f"{name}(…): arguments do not match the signature", e)
        given = dict(zip(params, e.args))
        for k in e.keywords:
            if k.arg not in params or k.arg in given:
                self.fail(f"{name}(…): arguments do not match the signature", e)
            given[k.arg] = k.value
        if len(given) != len(params) or len(set(params)) != len(params):
            self.fail(f"{name}(…): arguments do not match the signature", e)
        check_plain_function(self, fn)
        stores = {n.id for n in ast.walk(fn) if isinstance(n, ast.Name) and isinstance(n.ctx, (ast.Store, ast.Del))}
        bad = (stores | set(params)) & (set(self.numpy) | {"len", "self"} | set(self.helpers))
        if bad:
            self.fail(f"{name}(…): the helper function rebinds {', '.join(sorted(bad))}", e)
        vals = {p: self.arg_value(x) for p, x in given.items()}     # in the caller's scope, in call order
        roots = set()
        for v in vals.values():
            if v.kind in ("arr", "mask", "iarr"):
                roots |= set(v.roots)
        self.pynames = self.pynames | {n.id for n in ast.walk(fn) if isinstance(n, ast.Name)} | set(params)
        saved = (self.env, self.aliased, self.where)
        self.env, self.aliased = {}, set()
        self.where = f"{saved[2]} -> {name}"
        self.scopes.append([name, None, method == "self", fn])
        try:
            for p in params:
                v = vals[p]
                if v.kind in ("arr", "mask"):
                    v = Val(v.kind, v.term, v.nd, False, v.roots)
                if v.kind == "bool":
                    self.env[p] = v                                    # a constant of the translation: folded, no `let`
                    continue
                self.bind(p, v, e)
                if p in self.env and self.env[p].kind in ("arr", "mask", "iarr"):
                    self.aliased.add(p)                                # the caller's array: never updated in place
                    self.env[p].fresh = False
            try:
                self.block(fn.body)
            except Returned:
                pass
            res = self.scopes[-1][1]
            if res is None:
                self.fail("the helper function returns nothing on this path", e)
        finally:
            self.scopes.pop()
            self.env, self.aliased, self.where = saved
        def out(res):
            if res.kind in ("arr", "mask", "iarr"):
                mi = bool(res.mi) if res.kind == "arr" else None
                if res.fresh and not res.roots:
                    return Val(res.kind, res.term, res.nd, True, mi=mi)
                return Val(res.kind, res.term, res.nd, False, roots, mi=mi)
            if res.kind == "bool":
                self.fail(f"{name}(…): helper function returning a Boolean", e)
            return res
        if res.kind == "tuple":
            if not self.tuples_ok:
                self.fail(f"{name}(…): helper function returning a tuple", e)
            return Val("tuple", [out(x) for x in res.term])
        return out(res)

    def arg_value(self, x):
        """an argument of an inlined helper: a folded Boolean (`return_grad`, `self.ovo`, `not …`, True / False) stays a
        constant of the translation, anything else is an ordinary value"""
        b = self.fold_test(x)
        if b is not None:
            return Val("bool", "true" if b else "false", lit=b)
        return self.expr(x)

    def method_helper(self, f):
        """`self.m` where `m` is certainly the function written in the body of the translated class: `self` is the receiver
        of `evaluate` (an instance of exactly that class as far as the units go), `m` is bound exactly once in the class body,
        by a `def` that is undecorated or decorated with the builtin `staticmethod` only (both are non-data descriptors: an
        instance attribute of the same name would win, hence no attribute of that name may be stored anywhere in the file,
        nor may the name occur as a string, e.g. for `setattr`), and no other class of the file binds the name (an override
        in a subclass would change what the subclass runs).  Returns "self" / "static", or None when `f` is no such call."""
        if not (isinstance(f, ast.Attribute) and isinstance(f.value, ast.Name) and f.value.id == "self"
                and "self" not in self.env and self.has_self() and f.attr in self.methods):
            return None
        fn = self.methods[f.attr]
        if not fn.decorator_list:
            return "self"
        d = fn.decorator_list
        if len(d) == 1 and isinstance(d[0], ast.Name) and d[0].id == "staticmethod":
            return "static"
        self.fail(f"self.{f.attr}(…): decorated helper method (only @staticmethod)", f)

    def helper_stmt(self, st):
        """`return` / loops inside an inlined helper function"""
        if isinstance(st, ast.Return):
            if st.value is None:
                self.fail("return without value", st)
            if isinstance(st.value, ast.Tuple) and self.tuples_ok:
                self.scopes[-1][1] = Val("tuple", [self.expr(x) for x in st.value.elts])
            else:
                self.scopes[-1][1] = self.expr(st.value)
            raise Returned()
        self.fail(f"{type(st).__name__} inside a helper function", st)

    def call(self, e):
        f = e.func
        nokw = not e.keywords
        n = len(e.args)
        if isinstance(f, ast.Name) and f.id in self.helpers and f.id not in self.env and f.id not in getattr(self, "done", {}):
            return self.inline(f.id, e)
        how = self.method_helper(f) if self.methods else None
        if how is not None:
            return self.inline(f.attr, e, how)
        if isinstance(f, ast.Name) and f.id == "len" and "len" not in self.env and n == 1 and nokw:
            a = self.expr(e.args[0])
            if a.kind not in ("arr", "mask") or a.nd == 0:
                self.fail("len of something that is not a 1-d or 2-d array", e)
            return Val("nat", self.dim(a, 0, e))
        if self.is_np(f, {"clip"}):
            kw = {k.arg: k.value for k in e.keywords}
            if n == 3 and nokw:
                x, lo, hi = e.args
            elif n == 1 and set(kw) == {"a_min", "a_max"} and len(e.keywords) == 2:
                x, lo, hi = e.args[0], kw["a_min"], kw["a_max"]
            else:
                self.fail("np.clip: only np.clip(x, lo, hi) / np.clip(x, a_min=lo, a_max=hi)", e)
            a = self.arr(self.expr(x), e, "np.clip")
            lo, hi = self.scal(self.expr(lo), e, "np.clip"), self.scal(self.expr(hi), e, "np.clip")
            return Val("arr", f"(Arr.clip {a.term} {lo} {hi})", a.nd, True)
        if self.is_np(f, set(UNARY_NP)) and n == 1 and nokw:
            fn = UNARY_NP[f.attr]
            a = self.arr(self.expr(e.args[0]), e, "np." + f.attr, (0, 1, 2, 3) if fn in ("sign", "abs") else (0, 1, 2))
            return Val("arr", f"({'Arr3' if a.nd == 3 else 'Arr'}.{fn} {a.term})", a.nd, True)
        if self.is_np(f, {"expand_dims"}) and n >= 1:
            a = self.arr(self.expr(e.args[0]), e, "np.expand_dims", (1, 2))
            ax = self.axis_kw(e, e.args[1:], "np.expand_dims")
            if a.nd == 1 and ax in (0, -2):
                return Val("arr", f"(Arr.reshapeRow {a.term})", 2, False, a.roots)
            if a.nd == 1 and ax in (1, -1):
                return Val("arr", f"(Arr.reshapeCol {a.term})", 2, False, a.roots)
            if a.nd == 2 and ax in (0, 1, 2, -1, -2, -3):
                fn = ["expandFirst", "expandMid", "expandLast"][ax % 3]
                return Val("arr", f"(Arr3.{fn} {a.term})", 3, False, a.roots)
            self.fail(f"np.expand_dims(axis={ax}) of a {a.nd}-d array", e)
        if self.is_np(f, {"repeat"}) and n >= 2:
            a = self.arr(self.expr(e.args[0]), e, "np.repeat", 2)
            m = self.expr(e.args[1])
            ax = self.axis_kw(e, e.args[2:], "np.repeat")
            if m.kind != "nat" or ax not in (0, -2):
                self.fail("np.repeat: only np.repeat(2-d array, <shape entry>, axis=0)", e)
            return Val("arr", f"(Arr.repeat0 {a.term} {m.term})", 2, True)
        if self.is_np(f, {"squeeze"}) and n >= 1:
            return self.squeeze(self.expr(e.args[0]), e, e.args[1:])
        if self.is_np(f, {"transpose"}) and (n == 2 or (n == 1 and [k.arg for k in e.keywords] == ["axes"])):
            a = self.arr(self.expr(e.args[0]), e, "np.transpose", 3)
            axes = e.args[1] if n == 2 else e.keywords[0].value
            if not (n + len(e.keywords) == 2 and isinstance(axes, (ast.List, ast.Tuple))
                    and [self.literal_int(x) for x in axes.elts] == [0, 2, 1]):
                self.fail("np.transpose of a 3-d array: only axes=[0, 2, 1]", e)
            return Val("arr", f"(Arr3.transpose021 {a.term})", 3, False, a.roots)
        if self.is_np(f, {"swapaxes"}) and n == 3 and nokw:
            return self.swapaxes(self.expr(e.args[0]), e.args[1], e.args[2], e)
        if self.is_np(f, {"maximum"}):
            if n != 2 or not nokw or not self.zero(e.args[1]):
                self.fail("np.maximum: only np.maximum(array, 0)", e)
            a = self.arr(self.expr(e.args[0]), e, "np.maximum")
            return Val("arr", f"(Arr.maximum0 {a.term})", a.nd, True)
        if self.is_np(f, {"dot", "matmul"}) and n == 2 and nokw:
            return self.matmul(self.expr(e.args[0]), self.expr(e.args[1]), e, "np." + f.attr)
        if self.is_np(f, {"sum", "mean"}) and n >= 1:
            return self.reduce(f.attr, self.expr(e.args[0]), e, e.args[1:])
        if self.is_np(f, {"eye"}) and n == 1 and nokw:
            m = self.expr(e.args[0])
            if m.kind != "nat":
                self.fail("np.eye: the size must be a shape entry or a len(...)", e)
            return Val("arr", f"(Arr.eye {m.term})", 2, True)
        if self.is_np(f, {"diag"}) and n == 1 and nokw:
            a = self.arr(self.expr(e.args[0]), e, "np.diag", (1, 2))
            if a.nd == 2:
                return Val("arr", f"(Arr.diagVec {a.term})", 1, False, a.roots)
            return Val("arr", f"(Arr.diagMat {a.term})", 2, True)
        if self.is_np(f, {"transpose"}) and n == 1 and nokw:
            a = self.arr(self.expr(e.args[0]), e, "np.transpose", 2)
            return Val("arr", f"(Arr.transpose {a.term})", 2, False, a.roots)
        if self.is_np(f, {"copy"}) and n == 1 and nokw:
            a = self.arr(self.expr(e.args[0]), e, "np.copy")
            return Val("arr", a.term, a.nd, True)
        is_module = isinstance(f, ast.Attribute) and isinstance(f.value, ast.Name) and f.value.id in self.numpy \
            and f.value.id not in self.env
        if isinstance(f, ast.Attribute) and not is_module:
            m = f.attr
            if m in ("sum", "mean"):
                return self.reduce(m, self.expr(f.value), e, e.args)
            if m == "dot" and n == 1 and nokw:
                return self.matmul(self.expr(f.value), self.expr(e.args[0]), e, ".dot")
            if m == "transpose" and n == 0 and nokw:
                a = self.arr(self.expr(f.value), e, ".transpose()", 2)
                return Val("arr", f"(Arr.transpose {a.term})", 2, False, a.roots)
            if m == "copy" and n == 0 and nokw:
                a = self.arr(self.expr(f.value), e, ".copy()")
                return Val("arr", a.term, a.nd, True)
            if m == "reshape" and n >= 1 and nokw:
                return self.reshape(self.expr(f.value), e, e.args)
            if m == "squeeze":
                return self.squeeze(self.expr(f.value), e, e.args)
            if m == "swapaxes" and n == 2 and nokw:
                return self.swapaxes(self.expr(f.value), e.args[0], e.args[1], e)
        self.fail(f"unsupported call {ast.unparse(f)}(…)", e)

    # ------------------------------------------------------------ statements
    def bind(self, name, v, node):
        if name in ("self", "len") or name in self.numpy or (name in ARGS[2:] and not self.scopes):
            self.fail(f"assignment to {name}", node)
        if v.kind in ("tuple", "bool"):
            self.fail(f"assignment of a {'tuple' if v.kind == 'tuple' else 'Boolean'} to a name", node)
        lean = self.fresh_name(name)
        self.lets.append((lean, v.term))
        if v.kind in ("arr", "mask"):
            self.oks.append(lean)
        # the new variable shares memory with the roots of a view
        for r in v.roots:
            self.aliased.add(r)
        self.aliased.discard(name)
        if v.roots or not v.fresh:
            self.aliased.add(name)
        self.env[name] = Val(v.kind, lean, v.nd, v.fresh and not v.roots, v.roots,
                             mi=(bool(v.mi) if v.kind == "arr" else v.mi))

    def owned(self, name, node, what, int_ok=False):
        cur = self.env.get(name)
        if cur is None or cur.kind != "arr":
            self.fail(f"{what} of {name}, which is not a float array variable", node)
        if not cur.fresh or name in self.aliased:
            self.fail(f"{what} of {name}, which is (or may be) shared with another name, a parameter or a view", node)
        if cur.mi and not int_ok:
            self.fail(f"{what} of {name}, whose dtype may be an integer one (NumPy would truncate or raise)", node)
        return cur

    def stored_scalar(self, cur, value, st, what):
        """the scalar stored by `x[…] = value`: any Python scalar into a float array; into an array whose dtype may be an
        integer one only an integer literal (a float would be truncated)"""
        v = self.expr(value)
        if cur.mi and not (v.kind == "scal" and v.lit is not None and v.mi):
            self.fail(f"{what} of something else than an integer literal into an array whose dtype may be an integer one", st)
        return self.scal(v, st, what)

    def block(self, body):
        for st in body:
            self.stmt(st)

    def stmt(self, st):
        if isinstance(st, ast.Expr) and isinstance(st.value, ast.Constant) and isinstance(st.value.value, str):
            return
        if isinstance(st, ast.Pass):
            return
        if self.scopes and isinstance(st, (ast.Return, ast.For, ast.While)):
            return self.helper_stmt(st)
        if isinstance(st, ast.Assign):
            if len(st.targets) != 1:
                self.fail("chained assignment", st)
            t = st.targets[0]
            if isinstance(t, ast.Name):
                self.bind(t.id, self.expr(st.value), st)
                return
            if isinstance(t, ast.Tuple) and isinstance(st.value, ast.Call) and self.methods \
                    and self.method_helper(st.value.func) is not None:
                # `a, b = self.m(…)`: the tuple an inlined helper method returned, unpacked into distinct names
                v = self.expr(st.value)
                names = [x.id if isinstance(x, ast.Name) else None for x in t.elts]
                if v.kind != "tuple" or None in names or len(set(names)) != len(names) or len(names) != len(v.term):
                    self.fail("unsupported unpacking (only `a, b = self.m(…)` of a helper method returning as many values)", st)
                for nm, x in zip(names, v.term):
                    self.bind(nm, x, st)
                return
            if isinstance(t, ast.Subscript) and isinstance(t.value, ast.Name):
                cur = self.owned(t.value.id, st, "masked assignment", int_ok=True)
                if cur.nd == 3:
                    self.fail("masked assignment into a 3-d array", st)
                s = self.stored_scalar(cur, st.value, st, "masked assignment")
                sl = t.slice
                if isinstance(sl, ast.Tuple) and len(sl.elts) == 2 and isinstance(sl.elts[0], ast.Slice) \
                        and sl.elts[0].lower is None and sl.elts[0].upper is None and sl.elts[0].step is None:
                    m = self.expr(sl.elts[1])
                    if m.kind != "mask" or m.nd != 1 or cur.nd != 2:
                        self.fail("x[:, m] = s needs a 2-d x and a 1-d Boolean m", st)
                    self.bind(t.value.id, Val("arr", f"(Arr.setColsWhere {cur.term} {m.term} {s})", 2, True, mi=cur.mi), st)
                    return
                if not isinstance(sl, (ast.Tuple, ast.Slice)):
                    m = self.expr(sl)
                    if m.kind != "mask" or m.nd != cur.nd:
                        self.fail("x[m] = s needs a Boolean m with as many dimensions as x", st)
                    self.bind(t.value.id, Val("arr", f"(Arr.setWhere {cur.term} {m.term} {s})", cur.nd, True, mi=cur.mi), st)
                    return
            self.fail("unsupported assignment target", st)
        if isinstance(st, ast.Expr) and isinstance(st.value, ast.Call) and self.is_np(st.value.func, {"fill_diagonal"}):
            # `np.fill_diagonal(x, s)`: an in-place update of a 2-d array the variable `x` owns (returns None)
            c = st.value
            if len(c.args) != 2 or c.keywords or not isinstance(c.args[0], ast.Name):
                self.fail("np.fill_diagonal: only np.fill_diagonal(<variable>, scalar)", st)
            name = c.args[0].id
            cur = self.owned(name, st, "np.fill_diagonal", int_ok=True)
            if cur.nd != 2:
                self.fail("np.fill_diagonal of an array that is not 2-d", st)
            s = self.stored_scalar(cur, c.args[1], st, "np.fill_diagonal")
            self.bind(name, Val("arr", f"(Arr.fillDiagonal {cur.term} {s})", 2, True, mi=cur.mi), st)
            return
        if isinstance(st, ast.AugAssign):
            if not isinstance(st.target, ast.Name):
                self.fail("unsupported augmented assignment target", st)
            name = st.target.id
            cur = self.owned(name, st, "in-place update")
            if cur.nd == 3:
                self.fail("in-place update of a 3-d array", st)
            rhs = self.expr(st.value)
            v = self.binop(st.op, Val("arr", cur.term, cur.nd), rhs, st)
            if v.kind != "arr" or v.nd != cur.nd:
                self.fail(f"in-place update of a {cur.nd}-d array with a {self.describe(v)} result", st)
            self.bind(name, Val("arr", f"(Arr.inPlace {cur.term} {v.term})", cur.nd, True), st)
            return
        if isinstance(st, ast.If):
            cond = self.fold_test(st.test)
            if cond is None:
                self.fail("unsupported branch (only tests made of `self.ovo`, `return_grad`, `not`, `and`, `or`)", st)
            self.block(st.body if cond else st.orelse)
            return
        if isinstance(st, ast.Return):
            if st.value is None:
                self.fail("return without value", st)
            if isinstance(st.value, ast.Tuple):
                vals = [self.expr(x) for x in st.value.elts]
            else:
                v = self.expr(st.value)
                vals = list(v.term) if v.kind == "tuple" else [v]      # (a tuple: what an inlined helper method returned)
            want = [0, 2] if self.grad else [0]
            if len(vals) != len(want):
                self.fail(f"return of {len(vals)} value(s) with return_grad={self.grad}", st)
            for v, nd in zip(vals, want):
                if v.kind != "arr" or v.nd != nd:
                    self.fail(f"return: expected a {nd}-d float array, got {self.describe(v)}", st)
            self.result = vals
            raise Returned()
        self.fail(f"unsupported statement {type(st).__name__}", st)

    def run(self):
        a = self.fn.args
        names = [x.arg for x in a.args]
        if a.vararg or a.kwarg or a.kwonlyargs or a.posonlyargs or names != ["self"] + ARGS or len(a.defaults) != 1 \
                or not (isinstance(a.defaults[0], ast.Constant) and a.defaults[0].value is False):
            self.fail("unexpected signature (expected evaluate(self, y_pred, affinity, return_grad=False))")
        for s in sorted(SCALAR_ATTRS):
            self.used.add(s)
        for p in ARGS[:2]:
            self.used.add(p)
            self.env[p] = Val("arr", p, 2, False)
            self.aliased.add(p)
        try:
            self.block(self.fn.body)
        except Returned:
            pass
        if self.result is None:
            self.fail("no return value on this path")
        return self

    # ------------------------------------------------------------ emission
    def emit(self):
        flags = " && ".join(self.checks + [f"{n}.ok" for n in self.oks]) or "true"
        ls = [f"  let {n} := {t}" for n, t in self.lets]
        outs = [f"(Arr.checked flags {v.term})" for v in self.result]
        fin = outs[0] if len(outs) == 1 else "(" + ", ".join(outs) + ")"
        rty = "Arr α" if len(outs) == 1 else "Arr α × Arr α"
        doc = f"`{self.cls}.evaluate` with `self.ovo = {self.ovo}`, `return_grad = {self.grad}` ({self.rel})"
        return "\n".join([f"/-- {doc} -/",
                          f"def {self.lean_name} (epsilon : α) (y_pred : Arr α) (affinity : Arr α) : {rty} :="]
                         + ls + [f"  let flags := {flags}", "  " + fin, ""])

    def data(self):
        return {"class": self.cls, "method": "evaluate", "file": self.rel, "ovo": self.ovo, "return_grad": self.grad,
                "lets": [[n, t] for n, t in self.lets], "result": [v.term for v in self.result]}


def check_plain_function(unit, fn):
    """a function whose meaning is that of its statements in order: no generator / coroutine, no scope declaration, no
    nested function or class (they would be found anyway when reached; a `yield` in dead code changes what a call means)"""
    if isinstance(fn, ast.AsyncFunctionDef):
        unit.fail(f"{fn.name}: coroutine")
    for node in ast.walk(fn):
        if node is not fn and isinstance(node, (ast.Yield, ast.YieldFrom, ast.Await, ast.Global, ast.Nonlocal, ast.FunctionDef,
                                                 ast.AsyncFunctionDef, ast.ClassDef, ast.Lambda)):
            unit.fail(f"{fn.name}: {type(node).__name__} inside the function", node)


def _walk_scope(stmts):
    """the nodes of the given statements that belong to the same scope (bodies of nested functions / classes excluded;
    their names, decorators and defaults belong to it)"""
    todo = list(stmts)
    while todo:
        node = todo.pop()
        yield node
        if isinstance(node, (ast.FunctionDef, ast.AsyncFunctionDef, ast.ClassDef)):
            todo += list(node.decorator_list)
            if not isinstance(node, ast.ClassDef):
                todo += list(node.args.defaults) + [d for d in node.args.kw_defaults if d is not None]
            else:
                todo += list(node.bases) + [k.value for k in node.keywords]
        elif isinstance(node, ast.Lambda):
            todo += list(node.args.defaults) + [d for d in node.args.kw_defaults if d is not None]
        else:
            todo += list(ast.iter_child_nodes(node))


def module_helpers(tree):
    """name -> FunctionDef of the top-level `def`s whose name is bound exactly ONCE in the module scope (whatever the
    statement: def, class, assignment, import, loop / with / except target, walrus, del) and never declared `global`; none
    at all when the module has a `from … import *`.  A call `name(…)` then means: run that body."""
    counts, defs = {}, {}
    for node in _walk_scope(tree.body):
        names = []
        if isinstance(node, (ast.FunctionDef, ast.AsyncFunctionDef, ast.ClassDef)):
            names = [node.name]
        elif isinstance(node, ast.Name) and isinstance(node.ctx, (ast.Store, ast.Del)):
            names = [node.id]
        elif isinstance(node, (ast.Import, ast.ImportFrom)):
            names = [(a.asname or a.name).split(".")[0] for a in node.names]
        elif isinstance(node, ast.ExceptHandler) and node.name:
            names = [node.name]
        elif isinstance(node, (ast.MatchAs, ast.MatchStar)) and node.name:
            names = [node.name]
        elif isinstance(node, ast.MatchMapping) and node.rest:
            names = [node.rest]
        for x in names:
            counts[x] = counts.get(x, 0) + 1
    if "*" in counts:
        return {}
    declared = {x for node in ast.walk(tree) if isinstance(node, ast.Global) for x in node.names}
    for node in tree.body:
        if isinstance(node, ast.FunctionDef) and counts.get(node.name) == 1 and node.name not in declared:
            defs[node.name] = node
    return defs


def _bound_in_class(node):
    """how often each name is bound in the body of a class (its own scope)"""
    counts = {}
    for x in _walk_scope(node.body):
        names = []
        if isinstance(x, (ast.FunctionDef, ast.AsyncFunctionDef, ast.ClassDef)):
            names = [x.name]
        elif isinstance(x, ast.Name) and isinstance(x.ctx, (ast.Store, ast.Del)):
            names = [x.id]
        elif isinstance(x, (ast.Import, ast.ImportFrom)):
            names = [(a.asname or a.name).split(".")[0] for a in x.names]
        elif isinstance(x, ast.ExceptHandler) and x.name:
            names = [x.name]
        elif isinstance(x, (ast.MatchAs, ast.MatchStar)) and x.name:
            names = [x.name]
        elif isinstance(x, ast.MatchMapping) and x.rest:
            names = [x.rest]
        for n in names:
            counts[n] = counts.get(n, 0) + 1
    return counts


def class_helpers(tree, cls):
    """name -> FunctionDef of the methods of the top-level class `cls` that `self.name`, on an instance of exactly that
    class, certainly means: written as a plain `def` directly in the class body, the name bound exactly once there and in no
    other class of the file (at any depth), never stored or deleted as an attribute of anything in the file (`x.name = …`
    would shadow the function on an instance), never written as a string constant (`setattr(self, "name", …)`), the class
    body free of `global` / `nonlocal`, and — when decorated — `staticmethod` not rebound at module or class level.  None at
    all when the file has a `from … import *`, a metaclass keyword or several classes called `cls`."""
    nodes = [n for n in tree.body if isinstance(n, ast.ClassDef) and n.name == cls]
    everywhere = [n for n in ast.walk(tree) if isinstance(n, ast.ClassDef)]
    if len(nodes) != 1 or sum(1 for n in everywhere if n.name == cls) != 1 or nodes[0].keywords or nodes[0].decorator_list:
        return {}
    if any(isinstance(n, ast.ImportFrom) and any(a.name == "*" for a in n.names) for n in ast.walk(tree)):
        return {}
    node = nodes[0]
    if any(isinstance(x, (ast.Global, ast.Nonlocal)) for x in _walk_scope(node.body)):
        return {}
    own = _bound_in_class(node)
    others = set()
    for n in everywhere:
        if n is not node:
            others |= set(_bound_in_class(n))
    stored = {n.attr for n in ast.walk(tree) if isinstance(n, ast.Attribute) and isinstance(n.ctx, (ast.Store, ast.Del))}
    strings = {n.value for n in ast.walk(tree) if isinstance(n, ast.Constant) and isinstance(n.value, str)}
    module_level = set()
    for x in _walk_scope(tree.body):
        if isinstance(x, ast.Name) and isinstance(x.ctx, (ast.Store, ast.Del)):
            module_level.add(x.id)
        elif isinstance(x, (ast.FunctionDef, ast.AsyncFunctionDef, ast.ClassDef)):
            module_level.add(x.name)
        elif isinstance(x, (ast.Import, ast.ImportFrom)):
            module_level |= {(a.asname or a.name).split(".")[0] for a in x.names}
    module_level |= {x for n in ast.walk(tree) if isinstance(n, ast.Global) for x in n.names}
    static_ok = "staticmethod" not in module_level and "staticmethod" not in own
    out = {}
    for item in node.body:
        if isinstance(item, ast.FunctionDef) and own.get(item.name) == 1 and item.name not in others \
                and item.name not in stored and item.name not in strings and item.name != "evaluate" \
                and not (item.name.startswith("__") and item.name.endswith("__")):
            if item.decorator_list and not static_ok:
                continue
            out[item.name] = item
    return out


def _full_slice(s):
    return isinstance(s, ast.Slice) and s.lower is None and s.upper is None and s.step is None


def _numpy_names(rel, tree):
    names = set()
    for n in tree.body:
        if isinstance(n, ast.Import):
            for a in n.names:
                if a.name == "numpy":
                    names.add(a.asname or "numpy")
    for n in tree.body:
        nm = []
        if isinstance(n, (ast.FunctionDef, ast.ClassDef)):
            nm = [n.name]
        elif isinstance(n, ast.Assign):
            nm = [t.id for t in n.targets if isinstance(t, ast.Name)]
        elif isinstance(n, ast.ImportFrom):
            nm = [a.asname or a.name for a in n.names]
        for x in nm:
            if x in names or x == "len":
                raise TranslationFailure(f"{rel}: module-level rebinding of {x}")
    return names


def translate():
    trees = {rel: tables._parse(rel) for rel in FILES}
    nps = {rel: _numpy_names(rel, t) for rel, t in trees.items()}
    units = []
    for short, cls in CLASSES:
        rels = [rel for rel, t in trees.items() if any(isinstance(n, ast.ClassDef) and n.name == cls for n in t.body)]
        if len(rels) != 1:
            raise TranslationFailure(f"class {cls}: found in {len(rels)} of {', '.join(FILES)}")
        rel = rels[0]
        for ovo in (False, True):
            if (short, ovo) in NOT_TRANSLATED:
                continue
            for grad in (False, True):
                units.append(Unit(rel, trees[rel], nps[rel], short, cls, ovo, grad).run())
    return units


def geminis():
    units = translate()
    data = {u.lean_name: u.data() for u in units}
    skipped = ", ".join(f"{unit_name(s, o, False)}[_grad] ({why})" for (s, o), why in sorted(NOT_TRANSLATED.items()))
    L = ["/- GENERATED by translator/geminis.py from " + ", ".join(FILES) + " — do not edit.",
         "   Four `def`s per GEMINI class (`self.ovo` × `return_grad`, both folded) over the untyped NumPy of GemVerif/Np.lean",
         "   and Np2.lean; parameters: `self.epsilon`, `y_pred`, `affinity`.  0-d arrays are `(1, 1)`, 1-D arrays `(1, m)`.",
         "   Props/C01Gen.lean proves them equal to Model/Gemini.lean.",
         "   Not translated: " + (skipped or "nothing") + ". -/",
         "import GemVerif.Np2", "",
         "set_option linter.unusedVariables false", "",
         "namespace GemVerif.Gen.Geminis",
         "open GemVerif GemVerif.RealLike GemVerif.Np", "",
         "variable {α : Type} [RealLike α]", ""]
    for u in units:
        L.append(u.emit())
    L += ["end GemVerif.Gen.Geminis", ""]
    return data, "\n".join(L)


if __name__ == "__main__":
    d, t = geminis()
    print(t)
