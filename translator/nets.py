"""NumPy-expression translator for the straight-line array code of the gradient-trained model families
(property C03, reused by C18): `_infer` / `_compute_grads` of LinearModel, MLPModel, CategoricalModel,
SparseMLPModel, plus the penalty lines of `RIM._update_weights` and `KernelRIM._compute_grads`.

Reads the CURRENT sources of /repo with python `ast` (gemclus is never imported) and emits
`lean/GemVerif/Gen/Nets.lean`: one `def` per method over the untyped array DSL of `GemVerif/Np.lean`
(`Arr α`, NumPy shape rules incl. broadcasting of size-1 axes).  Props/C03Gen.lean proves every generated
definition equal, entry for entry and shape for shape, to the hand model of Model/Nets.lean that the C03
gradient theorems are stated about.

Parameters of a generated `def`, in this FIXED order:
  1. the `self.<attr>` attributes the method reads, sorted by attribute name (plain `sorted`, ASCII order);
     attributes are arrays, except the hyper-parameters of SCALAR_ATTRS (`reg`) which are scalars (`α`);
  2. the method's own arguments in signature order, without `self` and without `retain`.
A method that retains a value (`if retain: self.H_ = H`) additionally yields `<unit>_retained_<attr>`: the
retained value as a function of the same parameters.

Accepted: straight-line code made of
  * `name = expr`, `name op= expr` (op in + - * /; only on a variable that owns a fresh array: no alias, not a
    parameter, not a view), `lst[i] op= expr` on a list of arrays, also written `g = lst[i]` … `g op= expr` (the name `g`
    then IS the i-th array of the list: NumPy updates it in place, the list sees it; accepted while the list has not
    changed since `g` was taken from it, every other name taken from the same list becomes unreadable),
  * `if retain: self.<attr>_ = expr` (ignored for the returned value, see above), doc-strings,
  * `return expr` where expr is an array, a list literal / list comprehension over a literal tuple or list
    (`[-g for g in (a, b)]`), or a variable holding one,
  * `self.optimiser_.update_params(weights, lst)` as LAST statement of `_update_weights` (the unit's value is the
    list handed to the optimiser),
  * expressions: `@`, `np.dot`, `np.matmul`, `a.dot(b)`; `.T`, `.transpose()`, `np.transpose`; `+ - * /` between
    arrays (broadcasting), `scalar * array`, `array * scalar`, unary `-`/`+`, `np.negative/add/subtract/multiply/
    divide`; `a.sum(axis, keepdims=True)` / `np.sum(a, axis=…, keepdims=True)` with a literal axis; `a > 0` / `0 < a`;
    `np.maximum(a, 0)`; `softmax(a)` (must be sklearn.utils.extmath.softmax); `.copy()`; integer literals and
    `self.reg` with `+ - * /` as scalars; `super().<method>(…)` when the parent's method is itself a translated unit;
    `f(…)` for a top-level function `f` of the same file (bound exactly once in the module, undecorated, plain positional
    parameters) whose body is `x = expr` / `x op= expr` / `return expr` in this same expression language and reads nothing
    but its parameters: the body is INLINED (`Unit.inline`), its variables get Lean names of their own (`<f>_<name>`).
Anything else (loops, branches, calls of unknown functions, `**`, slicing, keepdims=False, non-integer literals,
`np.maximum` with another second argument, …) raises TranslationFailure: the tie is then reported broken.
"""
import ast
import keyword
import os
import re

from . import tables
from .tables import TranslationFailure

FILES = ["gemclus/linear/_linear_geminis.py", "gemclus/mlp/_mlp_geminis.py",
         "gemclus/nonparametric/_categorical_models.py", "gemclus/sparse/_mlp_sparse.py"]

# (Lean name, class, method)
UNITS = [
    ("linear_infer", "LinearModel", "_infer"),
    ("linear_compute_grads", "LinearModel", "_compute_grads"),
    ("rim_update_weights", "RIM", "_update_weights"),
    ("kernel_rim_compute_grads", "KernelRIM", "_compute_grads"),
    ("mlp_infer", "MLPModel", "_infer"),
    ("mlp_compute_grads", "MLPModel", "_compute_grads"),
    ("categorical_infer", "CategoricalModel", "_infer"),
    ("categorical_compute_grads", "CategoricalModel", "_compute_grads"),
    ("sparse_mlp_infer", "SparseMLPModel", "_infer"),
    ("sparse_mlp_compute_grads", "SparseMLPModel", "_compute_grads"),
]

SCALAR_ATTRS = {"reg"}
ARRAY_ATTRS_EXTRA = {"_training_kernel"}
LEAN_KEYWORDS = {"at", "from", "fun", "end", "have", "show", "let", "in", "do", "then", "else", "if", "match", "with",
                 "def", "theorem", "open", "namespace", "section", "variable", "by", "where", "instance", "structure",
                 "class", "import", "mutual", "universe", "example", "axiom", "forall", "exists", "Type", "Prop", "Sort",
                 "using", "calc", "return", "for", "unless", "try", "catch", "finally", "deriving", "extends", "private",
                 "protected", "noncomputable", "partial", "unsafe", "macro", "syntax", "notation", "infix", "infixl",
                 "infixr", "prefix", "postfix", "attribute", "local", "scoped", "set_option", "nat", "Arr", "sorry"}
BINOPS = {ast.Add: ("add", "+"), ast.Sub: ("sub", "-"), ast.Mult: ("mul", "*"), ast.Div: ("div", "/")}
NP_BINOPS = {"add": ast.Add, "subtract": ast.Sub, "multiply": ast.Mult, "divide": ast.Div, "true_divide": ast.Div}


def lean_ident(name):
    if not re.fullmatch(r"[A-Za-z_][A-Za-z0-9_]*", name) or name == "_":
        raise TranslationFailure(f"name {name!r} cannot be used in Lean")
    if name in LEAN_KEYWORDS or keyword.iskeyword(name):
        return "py_" + name
    return name


class Val:
    """a translated value: kind in {'arr', 'scal', 'list', 'olist'}; `term` is a Lean term (for 'list': python list
    of Lean terms); `fresh` = the value is a newly allocated array nobody else refers to"""

    def __init__(self, kind, term, fresh=False):
        self.kind, self.term, self.fresh = kind, term, fresh


class Module:
    def __init__(self, rel):
        self.rel = rel
        self.tree = tables._parse(rel)
        self.classes = {n.name: n for n in self.tree.body if isinstance(n, ast.ClassDef)}
        self.numpy, self.softmax = set(), set()
        for n in self.tree.body:
            if isinstance(n, ast.Import):
                for a in n.names:
                    if a.name == "numpy":
                        self.numpy.add(a.asname or "numpy")
            if isinstance(n, ast.ImportFrom) and n.module == "sklearn.utils.extmath" and n.level == 0:
                for a in n.names:
                    if a.name == "softmax":
                        self.softmax.add(a.asname or "softmax")
        # a module-level rebinding of these names would change their meaning
        for n in self.tree.body:
            names = []
            if isinstance(n, (ast.FunctionDef, ast.ClassDef)):
                names = [n.name]
            elif isinstance(n, ast.Assign):
                names = [t.id for t in n.targets if isinstance(t, ast.Name)]
            for nm in names:
                if nm in self.numpy or nm in self.softmax:
                    raise TranslationFailure(f"{rel}: module-level rebinding of {nm}")
        from .geminis import module_helpers       # (geminis.py imports this module: late import)
        self.helpers = module_helpers(self.tree)  # top-level functions bound exactly once: calls to them are inlined


class World:
    def __init__(self):
        self.modules = [Module(rel) for rel in FILES]
        self.cls = {}
        for m in self.modules:
            for name, node in m.classes.items():
                self.cls.setdefault(name, (m, node))

    def method(self, cls, name):
        """(module, owner class name, FunctionDef) following single inheritance inside the translated files"""
        seen = 0
        while cls in self.cls and seen < 8:
            seen += 1
            mod, node = self.cls[cls]
            for item in node.body:
                if isinstance(item, ast.FunctionDef) and item.name == name:
                    if item.decorator_list:
                        raise TranslationFailure(f"{cls}.{name}: decorated method")
                    return mod, cls, item
            bases = [b.id for b in node.bases if isinstance(b, ast.Name) and b.id in self.cls]
            if len(bases) != 1:
                break
            cls = bases[0]
        raise TranslationFailure(f"{cls}.{name} not found in {', '.join(FILES)}")

    def parent(self, cls):
        _, node = self.cls[cls]
        bases = [b.id for b in node.bases if isinstance(b, ast.Name) and b.id in self.cls]
        if len(bases) != 1:
            raise TranslationFailure(f"super() in {cls}: parent class outside the translated files")
        return bases[0]


class Unit:
    def __init__(self, world, lean_name, cls, meth, by_method):
        self.world, self.lean_name, self.cls, self.meth = world, lean_name, cls, meth
        self.by_method = by_method            # (owner class, method) -> finished Unit, for super() calls
        self.mod, self.owner, self.fn = world.method(cls, meth)
        self.where = f"{self.owner}.{meth}"
        self.attrs = {}                       # attribute -> kind
        self.lets = []                        # (lean name, lean term)
        self.env = {}                         # python name -> Val
        self.aliased = set()
        self.retained = {}                    # attribute -> (number of lets before, term)
        self.result = None
        self.args = []
        self.list_args = set()
        self.scopes = []                      # inlined helper functions: [name, {python name: Lean name}, returned Val]
        self.elem = {}                        # python name -> (list name, i, the list's Val then): the name IS lst[i]
        self.taken = None                     # names a helper-local Lean name must avoid

    # ------------------------------------------------------------ helpers
    def fail(self, msg, node=None):
        ln = f" (line {node.lineno})" if node is not None and hasattr(node, "lineno") else ""
        raise TranslationFailure(f"{self.mod.rel}::{self.where}{ln}: {msg}")

    def attr(self, name, node):
        if self.scopes:
            self.fail(f"read of self.{name} inside a helper function", node)
        if name in SCALAR_ATTRS:
            kind = "scal"
        elif name.endswith("_") or name in ARRAY_ATTRS_EXTRA:
            kind = "arr"
        else:
            self.fail(f"read of self.{name}: neither a fitted array attribute nor a known scalar hyper-parameter", node)
        self.attrs[name] = kind
        return Val(kind, "self." + name)      # placeholder, renamed at emission

    def is_np(self, f, names):
        return isinstance(f, ast.Attribute) and isinstance(f.value, ast.Name) and f.value.id in self.mod.numpy \
            and f.attr in names and f.value.id not in self.env

    def need(self, v, kind, node, what):
        if v.kind != kind:
            self.fail(f"{what}: expected {'an array' if kind == 'arr' else kind}, got {v.kind}", node)
        return v

    def zero(self, e):
        return isinstance(e, ast.Constant) and type(e.value) in (int, float) and e.value == 0

    def axis_of(self, call, pos_args):
        axis, keep = None, None
        if len(pos_args) > 1:
            self.fail("sum: positional arguments after the axis are not supported", call)
        if pos_args:
            axis = pos_args[0]
        for k in call.keywords:
            if k.arg == "axis" and axis is None:
                axis = k.value
            elif k.arg == "keepdims" and keep is None:
                keep = k.value
            else:
                self.fail(f"sum: unsupported argument {k.arg}", call)
        if not (isinstance(keep, ast.Constant) and keep.value is True):
            self.fail("sum without keepdims=True (the result would not be 2-D)", call)
        if isinstance(axis, ast.UnaryOp) and isinstance(axis.op, ast.USub) and isinstance(axis.operand, ast.Constant):
            axis = ast.Constant(value=-axis.operand.value)
        if not (isinstance(axis, ast.Constant) and type(axis.value) is int and axis.value in (0, 1, -1, -2)):
            self.fail("sum: the axis must be a literal 0 or 1", call)
        return axis.value % 2

    # ------------------------------------------------------------ expressions
    def binop(self, op, l, r, node):
        if type(op) not in BINOPS:
            self.fail(f"unsupported operator {type(op).__name__}", node)
        fn, sym = BINOPS[type(op)]
        if l.kind == "arr" and r.kind == "arr":
            return Val("arr", f"(Arr.{fn} {l.term} {r.term})", True)
        if l.kind == "scal" and r.kind == "scal":
            return Val("scal", f"({l.term} {sym} {r.term})")
        if fn == "mul" and l.kind == "scal" and r.kind == "arr":
            return Val("arr", f"(Arr.smul {l.term} {r.term})", True)
        if fn == "mul" and l.kind == "arr" and r.kind == "scal":
            return Val("arr", f"(Arr.muls {l.term} {r.term})", True)
        self.fail(f"unsupported operands for {sym}: {l.kind}, {r.kind}", node)

    def expr(self, e):
        if isinstance(e, ast.Constant):
            v = e.value
            if type(v) is int and v >= 0:
                return Val("scal", f"(nat {v})")
            if type(v) is float and v >= 0 and v == int(v) and v < 2 ** 53:
                return Val("scal", f"(nat {int(v)})")
            self.fail(f"unsupported literal {v!r}", e)
        if isinstance(e, ast.Name):
            if e.id in self.env:
                v = self.env[e.id]
                if v.kind == "stale":
                    self.fail(f"read of {e.id}, an array of a list that was updated in place through another name since", e)
                return Val(v.kind, v.term, False)
            self.fail(f"unknown name {e.id}", e)
        if isinstance(e, ast.Attribute):
            if isinstance(e.value, ast.Name) and e.value.id == "self" and "self" not in self.env:
                return self.attr(e.attr, e)
            if e.attr == "T":
                a = self.need(self.expr(e.value), "arr", e, ".T")
                return Val("arr", f"(Arr.transpose {a.term})", False)     # a view
            self.fail(f"unsupported attribute .{e.attr}", e)
        if isinstance(e, ast.UnaryOp):
            a = self.expr(e.operand)
            if isinstance(e.op, ast.UAdd) and a.kind in ("arr", "scal"):
                return Val(a.kind, a.term, a.kind == "arr")
            if isinstance(e.op, ast.USub) and a.kind == "arr":
                return Val("arr", f"(Arr.neg {a.term})", True)
            if isinstance(e.op, ast.USub) and a.kind == "scal":
                return Val("scal", f"(-{a.term})")
            self.fail(f"unsupported unary operator {type(e.op).__name__} on {a.kind}", e)
        if isinstance(e, ast.BinOp):
            if isinstance(e.op, ast.MatMult):
                a = self.need(self.expr(e.left), "arr", e, "@")
                b = self.need(self.expr(e.right), "arr", e, "@")
                return Val("arr", f"(Arr.matmul {a.term} {b.term})", True)
            l = self.expr(e.left)
            r = self.expr(e.right)
            return self.binop(e.op, l, r, e)
        if isinstance(e, ast.Compare):
            if len(e.ops) == 1 and isinstance(e.ops[0], ast.Gt) and self.zero(e.comparators[0]):
                a = self.need(self.expr(e.left), "arr", e, "> 0")
                return Val("arr", f"(Arr.gt0 {a.term})", True)
            if len(e.ops) == 1 and isinstance(e.ops[0], ast.Lt) and self.zero(e.left):
                a = self.need(self.expr(e.comparators[0]), "arr", e, "0 <")
                return Val("arr", f"(Arr.gt0 {a.term})", True)
            self.fail("unsupported comparison (only `array > 0`)", e)
        if isinstance(e, (ast.List, ast.Tuple)):
            items = []
            for x in e.elts:
                v = self.need(self.expr(x), "arr", x, "list element")
                if isinstance(x, ast.Name):
                    self.aliased.add(x.id)
                items.append(v.term)
            return Val("list", items)
        if isinstance(e, ast.ListComp):
            return self.listcomp(e)
        if isinstance(e, ast.Subscript):
            lst = self.expr(e.value)
            i = e.slice
            if lst.kind in ("list", "olist") and isinstance(i, ast.Constant) and type(i.value) is int and i.value >= 0:
                if lst.kind == "list":
                    if i.value >= len(lst.term):
                        self.fail("list index out of range", e)
                    return Val("arr", lst.term[i.value], False)
                return Val("arr", f"(Arr.nth {lst.term} {i.value})", False)
            self.fail("unsupported subscript", e)
        if isinstance(e, ast.Call):
            return self.call(e)
        self.fail(f"unsupported expression {type(e).__name__}", e)

    def listcomp(self, e):
        if len(e.generators) != 1:
            self.fail("nested comprehension", e)
        g = e.generators[0]
        if g.ifs or g.is_async or not isinstance(g.target, ast.Name):
            self.fail("unsupported comprehension", e)
        it = self.expr(g.iter)
        if it.kind != "list":
            self.fail("comprehension over something that is not a literal list/tuple of arrays", e)
        var = g.target.id
        saved = self.env.get(var)
        out = []
        for term in it.term:
            self.env[var] = Val("arr", term)
            out.append(self.need(self.expr(e.elt), "arr", e, "comprehension element").term)
        if saved is None:
            self.env.pop(var, None)
        else:
            self.env[var] = saved
        return Val("list", out)

    # ------------------------------------------------------------ pure module-level helper functions, inlined
    def local_name(self, name):
        """Lean name of a Python variable: itself at the level of the method (a rebinding shadows the previous `let`), a
        name of its own inside an inlined helper function (whose variables must not shadow the caller's)"""
        if not self.scopes:
            return lean_ident(name)
        _, names, _ = self.scopes[-1]
        if name not in names:
            if self.taken is None:
                self.taken = {n.id for n in ast.walk(self.fn) if isinstance(n, ast.Name)} | {a.arg for a in self.fn.args.args}
                self.taken |= {n.attr for n in ast.walk(self.fn) if isinstance(n, ast.Attribute)}
                self.taken |= {"self_" + x for x in self.taken} | LEAN_KEYWORDS | {u[0] for u in UNITS} \
                    | {f"{u[0]}_retained_{x}" for u in UNITS for x in self.taken}
            base = lean_ident(f"{self.scopes[-1][0].strip('_') or 'helper'}_{name}")
            cand, k = base, 0
            while cand in self.taken:
                k += 1
                cand = f"{base}_{k}"
            self.taken.add(cand)
            names[name] = cand
        return names[name]

    def inline(self, name, e):
        """`name(args)` for a function defined (once, undecorated) at the top level of the same file: its body — `x = expr`,
        `x op= expr` on its own fresh arrays, `return expr`, in the expression language of this translator — is translated
        in place, in a scope holding nothing but its parameters (no `self`, no `super()`, no global but the NumPy module,
        `softmax` and the other top-level functions).  Parameters are bound by `let`s under names of their own and are
        never updated in place; a returned value that is not freshly allocated may share memory with any argument."""
        from .geminis import check_plain_function
        fn = self.mod.helpers[name]
        if len(self.scopes) >= 8 or any(s[0] == name for s in self.scopes):
            self.fail(f"{name}(…): recursive helper function", e)
        caller = self.mod.helpers[self.scopes[-1][0]] if self.scopes else self.fn
        if any(isinstance(n, ast.Name) and n.id == name and isinstance(n.ctx, (ast.Store, ast.Del)) for n in ast.walk(caller)) \
                or name in {x.arg for x in caller.args.args}:
            self.fail(f"{name}(…): the calling function binds the name {name} itself", e)
        a = fn.args
        if fn.decorator_list or a.vararg or a.kwarg or a.kwonlyargs or a.posonlyargs or a.defaults:
            self.fail(f"{name}(…): helper functions must be undecorated and take plain positional parameters without defaults", e)
        params = [x.arg for x in a.args]
        if any(isinstance(x, ast.Starred) for x in e.args) or any(k.arg is None for k in e.keywords) or len(e.args) > len(params):
            self.fail(f"{name}(…): arguments do not match the signature", e)
        given = dict(zip(params, e.args))
        for k in e.keywords:
            if k.arg not in params or k.arg in given:
                self.fail(f"{name}(…): arguments do not match the signature", e)
            given[k.arg] = k.value
        if len(given) != len(params) or len(set(params)) != len(params):
            self.fail(f"{name}(…): arguments do not match the signature", e)
        check_plain_function(self, fn)
        stores = {n.id for n in ast.walk(fn) if isinstance(n, ast.Name) and isinstance(n.ctx, (ast.Store, ast.Del))}
        bad = (stores | set(params)) & (self.mod.numpy | self.mod.softmax | {"self", "super"} | set(self.mod.helpers))
        if bad:
            self.fail(f"{name}(…): the helper function rebinds {', '.join(sorted(bad))}", e)
        vals = {p: self.expr(x) for p, x in given.items()}          # in the caller's scope, in call order
        if self.taken is not None:
            self.taken |= {n.id for n in ast.walk(fn) if isinstance(n, ast.Name)}
        saved = (self.env, self.aliased, self.where)
        self.env, self.aliased = {}, set()
        self.where = f"{saved[2]} -> {name}"
        self.scopes.append([name, {}, None])
        try:
            for p in params:
                v = vals[p]
                if v.kind not in ("arr", "scal"):
                    self.fail(f"{name}(…): argument {p} is neither an array nor a scalar", e)
                self.bind(p, Val(v.kind, v.term, False))
                self.aliased.add(p)                                    # the caller's array: never updated in place
            for st in fn.body:
                if self.scopes[-1][2] is not None:
                    break                                              # statements after `return` are never run
                if isinstance(st, ast.Expr) and isinstance(st.value, ast.Constant) and isinstance(st.value.value, str):
                    continue
                if isinstance(st, ast.Assign):
                    self.assign(st, None)
                elif isinstance(st, ast.AugAssign):
                    self.augassign(st)
                elif isinstance(st, ast.Return):
                    if st.value is None:
                        self.fail("return without value", st)
                    self.scopes[-1][2] = self.expr(st.value)
                else:
                    self.fail(f"unsupported statement {type(st).__name__} inside a helper function", st)
            res = self.scopes[-1][2]
            if res is None:
                self.fail("the helper function returns nothing", e)
            if res.kind not in ("arr", "scal"):
                self.fail(f"the helper function returns {res.kind}", e)
        finally:
            self.scopes.pop()
            self.env, self.aliased, self.where = saved
        if res.kind == "arr" and not res.fresh:
            for x in given.values():                                   # the result may be (a view of) an argument
                if isinstance(x, ast.Name):
                    self.aliased.add(x.id)
        return Val(res.kind, res.term, res.kind == "arr" and res.fresh)

    def call(self, e):
        f = e.func
        nokw = not e.keywords
        if isinstance(f, ast.Name) and f.id in self.mod.helpers and f.id not in self.env and f.id not in self.mod.softmax:
            return self.inline(f.id, e)
        # softmax(A)
        if isinstance(f, ast.Name) and f.id in self.mod.softmax and f.id not in self.env:
            if len(e.args) != 1 or not nokw:
                self.fail("softmax with extra arguments", e)
            a = self.need(self.expr(e.args[0]), "arr", e, "softmax")
            return Val("arr", f"(Arr.softmax {a.term})", True)
        if self.is_np(f, {"maximum"}):
            if len(e.args) != 2 or not nokw or not self.zero(e.args[1]):
                self.fail("np.maximum: only np.maximum(array, 0)", e)
            a = self.need(self.expr(e.args[0]), "arr", e, "np.maximum")
            return Val("arr", f"(Arr.maximum0 {a.term})", True)
        if self.is_np(f, {"dot", "matmul"}) and len(e.args) == 2 and nokw:
            a = self.need(self.expr(e.args[0]), "arr", e, "np." + f.attr)
            b = self.need(self.expr(e.args[1]), "arr", e, "np." + f.attr)
            return Val("arr", f"(Arr.matmul {a.term} {b.term})", True)
        if self.is_np(f, set(NP_BINOPS)) and len(e.args) == 2 and nokw:
            l = self.expr(e.args[0])
            r = self.expr(e.args[1])
            return self.binop(NP_BINOPS[f.attr](), l, r, e)
        if self.is_np(f, {"negative"}) and len(e.args) == 1 and nokw:
            a = self.need(self.expr(e.args[0]), "arr", e, "np.negative")
            return Val("arr", f"(Arr.neg {a.term})", True)
        if self.is_np(f, {"transpose"}) and len(e.args) == 1 and nokw:
            a = self.need(self.expr(e.args[0]), "arr", e, "np.transpose")
            return Val("arr", f"(Arr.transpose {a.term})", False)
        if self.is_np(f, {"copy"}) and len(e.args) == 1 and nokw:
            a = self.need(self.expr(e.args[0]), "arr", e, "np.copy")
            return Val("arr", a.term, True)
        if self.is_np(f, {"sum"}) and len(e.args) >= 1:
            a = self.need(self.expr(e.args[0]), "arr", e, "np.sum")
            ax = self.axis_of(e, e.args[1:])
            return Val("arr", f"(Arr.sumAxis{ax} {a.term})", True)
        # super().method(args)
        if isinstance(f, ast.Attribute) and isinstance(f.value, ast.Call) and isinstance(f.value.func, ast.Name) \
                and f.value.func.id == "super" and not f.value.args and not f.value.keywords and "super" not in self.env \
                and not self.scopes:
            pmod, powner, _ = self.world.method(self.world.parent(self.owner), f.attr)
            unit = self.by_method.get((powner, f.attr))
            if unit is None:
                self.fail(f"super().{f.attr}: {powner}.{f.attr} is not a translated unit", e)
            if not nokw or len(e.args) != len(unit.args):
                self.fail(f"super().{f.attr}: arguments do not match the parent's signature", e)
            terms = []
            for a in unit.attr_order():
                terms.append(self.attr(a, e).term)
            for x, pname in zip(e.args, unit.args):
                v = self.expr(x)
                self.need(v, "olist" if pname in unit.list_args else "arr", x, f"argument {pname}")
                terms.append(v.term)
            return Val("olist" if unit.result.kind in ("list", "olist") else "arr",
                       "(" + " ".join([unit.lean_name] + terms) + ")", True)
        # methods of arrays
        if isinstance(f, ast.Attribute):
            if f.attr == "sum":
                a = self.need(self.expr(f.value), "arr", e, ".sum")
                ax = self.axis_of(e, e.args)
                return Val("arr", f"(Arr.sumAxis{ax} {a.term})", True)
            if f.attr == "dot" and len(e.args) == 1 and nokw:
                a = self.need(self.expr(f.value), "arr", e, ".dot")
                b = self.need(self.expr(e.args[0]), "arr", e, ".dot")
                return Val("arr", f"(Arr.matmul {a.term} {b.term})", True)
            if f.attr == "transpose" and not e.args and nokw:
                a = self.need(self.expr(f.value), "arr", e, ".transpose()")
                return Val("arr", f"(Arr.transpose {a.term})", False)
            if f.attr == "copy" and not e.args and nokw:
                a = self.need(self.expr(f.value), "arr", e, ".copy()")
                return Val("arr", a.term, True)
        self.fail(f"unsupported call {ast.unparse(f)}(…)", e)

    # ------------------------------------------------------------ statements
    def bind(self, name, v):
        """introduce a Lean `let` (arrays and scalars); lists stay symbolic"""
        if v.kind in ("arr", "scal", "olist"):
            lean = self.local_name(name)
            self.lets.append((lean, v.term))
            self.env[name] = Val(v.kind, lean, v.fresh)
        else:
            self.env[name] = v
        self.aliased.discard(name)
        self.elem.pop(name, None)

    def run(self):
        fn = self.fn
        a = fn.args
        if a.vararg or a.kwarg or a.kwonlyargs or a.posonlyargs or not a.args or a.args[0].arg != "self":
            self.fail("unexpected signature")
        names = [x.arg for x in a.args][1:]
        ndef = len(a.defaults)
        plain, dflt = names[:len(names) - ndef], names[len(names) - ndef:]
        retain = None
        if dflt:
            if dflt != ["retain"] or not (isinstance(a.defaults[0], ast.Constant) and a.defaults[0].value is True):
                self.fail("unexpected default arguments (only retain=True)")
            retain = "retain"
        self.args = plain
        is_update = self.meth == "_update_weights"
        for p in plain:
            if is_update and p == plain[-1]:
                self.env[p] = Val("olist", lean_ident(p))
                self.list_args.add(p)
            elif is_update:
                self.env[p] = Val("weights", lean_ident(p))
            else:
                self.env[p] = Val("arr", lean_ident(p))
        body = list(fn.body)
        for idx, st in enumerate(body):
            last = idx == len(body) - 1
            if isinstance(st, ast.Expr) and isinstance(st.value, ast.Constant) and isinstance(st.value.value, str):
                continue
            if self.result is not None:
                self.fail("statement after return", st)
            if isinstance(st, ast.Assign):
                self.assign(st, retain)
                continue
            if isinstance(st, ast.AugAssign):
                self.augassign(st)
                continue
            if isinstance(st, ast.If):
                if retain is None or not (isinstance(st.test, ast.Name) and st.test.id == retain) or st.orelse \
                        or len(st.body) != 1 or not isinstance(st.body[0], ast.Assign) or len(st.body[0].targets) != 1:
                    self.fail("unsupported branch (only `if retain: self.<attr>_ = value`)", st)
                t = st.body[0].targets[0]
                if not (isinstance(t, ast.Attribute) and isinstance(t.value, ast.Name) and t.value.id == "self" and t.attr.endswith("_")):
                    self.fail("unsupported branch (only `if retain: self.<attr>_ = value`)", st)
                self.retain_stmt(t, st.body[0].value, st)
                continue
            if isinstance(st, ast.Return):
                if st.value is None:
                    self.fail("return without value", st)
                self.result = self.expr(st.value)
                if self.result.kind not in ("arr", "list", "olist"):
                    self.fail(f"return of {self.result.kind}", st)
                continue
            if is_update and last and isinstance(st, ast.Expr) and isinstance(st.value, ast.Call):
                c = st.value
                if ast.unparse(c.func) == "self.optimiser_.update_params" and len(c.args) == 2 and not c.keywords \
                        and isinstance(c.args[0], ast.Name) and self.env.get(c.args[0].id, Val("", "")).kind == "weights":
                    self.result = self.expr(c.args[1])
                    if self.result.kind not in ("list", "olist"):
                        self.fail("update_params is not handed a list of gradients", st)
                    continue
            self.fail(f"unsupported statement {type(st).__name__}", st)
        if self.result is None:
            self.fail("no return value")
        return self

    def assign(self, st, retain):
        if len(st.targets) != 1:
            self.fail("chained assignment", st)
        t = st.targets[0]
        if isinstance(t, ast.Name):
            if t.id in (retain, "self", "super") or t.id in self.mod.numpy or t.id in self.mod.softmax or t.id in self.mod.helpers:
                self.fail(f"assignment to {t.id}", st)
            v = self.expr(st.value)
            if isinstance(st.value, ast.Name):
                self.aliased.add(st.value.id)
                v.fresh = False
            self.bind(t.id, v)
            if not v.fresh:
                self.aliased.add(t.id)
            sub = st.value
            if not self.scopes and isinstance(sub, ast.Subscript) and isinstance(sub.value, ast.Name) and sub.value.id != t.id \
                    and isinstance(sub.slice, ast.Constant) and type(sub.slice.value) is int and sub.slice.value >= 0 \
                    and self.env.get(sub.value.id) is not None and self.env[sub.value.id].kind in ("list", "olist"):
                self.elem[t.id] = (sub.value.id, sub.slice.value, self.env[sub.value.id])
            return
        if isinstance(t, ast.Attribute) and isinstance(t.value, ast.Name) and t.value.id == "self" and t.attr.endswith("_") \
                and not self.scopes:
            self.retain_stmt(t, st.value, st)
            return
        self.fail("unsupported assignment target", st)

    def retain_stmt(self, target, value, st):
        if target.attr in self.attrs or target.attr in self.retained:
            self.fail(f"self.{target.attr} is both read and written", st)
        v = self.need(self.expr(value), "arr", st, f"self.{target.attr} =")
        if isinstance(value, ast.Name):
            self.aliased.add(value.id)
        self.retained[target.attr] = (len(self.lets), v.term)

    def augassign(self, st):
        if type(st.op) not in BINOPS:
            self.fail(f"unsupported operator {type(st.op).__name__}=", st)
        t = st.target
        if isinstance(t, ast.Name):
            cur = self.env.get(t.id)
            if cur is None or cur.kind != "arr":
                self.fail(f"augmented assignment to {t.id}", st)
            if t.id in self.elem:
                # `g = lst[i]` … `g op= expr`: NumPy updates the array in place, so this is `lst[i] op= expr`
                lname, i, then = self.elem[t.id]
                if self.env.get(lname) is not then:
                    self.fail(f"in-place update of {t.id}, taken from the list {lname} which has changed since", st)
                rhs = self.expr(st.value)
                v = self.binop(st.op, Val("arr", cur.term), rhs, st)
                if v.kind != "arr":
                    self.fail("item update with a non-array", st)
                self.set_item(lname, i, v)
                self.bind(t.id, Val("arr", self.expr(ast.Subscript(value=ast.Name(id=lname, ctx=ast.Load()),
                                                                  slice=ast.Constant(value=i), ctx=ast.Load())).term, False))
                self.aliased.add(t.id)
                self.elem[t.id] = (lname, i, self.env[lname])
                return
            if not cur.fresh or t.id in self.aliased:
                self.fail(f"in-place update of {t.id}, which is (or may be) shared with another name, a parameter or an attribute", st)
            rhs = self.expr(st.value)
            v = self.binop(st.op, Val("arr", cur.term), rhs, st)
            self.bind(t.id, v)
            return
        if isinstance(t, ast.Subscript) and isinstance(t.value, ast.Name) and isinstance(t.slice, ast.Constant) \
                and type(t.slice.value) is int and t.slice.value >= 0:
            lst = self.env.get(t.value.id)
            i = t.slice.value
            if lst is None or lst.kind not in ("list", "olist"):
                self.fail("item update of something that is not a list of arrays", st)
            cur = self.expr(t)
            rhs = self.expr(st.value)
            v = self.binop(st.op, cur, rhs, st)
            if v.kind != "arr":
                self.fail("item update with a non-array", st)
            self.set_item(t.value.id, i, v)
            return
        self.fail("unsupported augmented assignment target", st)

    def set_item(self, lname, i, v):
        """the list `lname` with its i-th array replaced by `v` (`lst[i] op= expr`: for an ndarray the update is in place,
        so every name that was taken from the list before holds a changed array: such names become unreadable)"""
        lst = self.env[lname]
        keep = dict(self.elem)
        if lst.kind == "list":
            if i >= len(lst.term):
                self.fail("list index out of range")
            items = list(lst.term)
            for name, cur in list(self.env.items()):                   # a variable holding that very array: changed too
                if cur.kind == "arr" and cur.term == items[i] and name not in keep:
                    self.env[name] = Val("stale", "")
            items[i] = v.term
            self.env[lname] = Val("list", items)
        else:
            self.bind(lname, Val("olist", f"(Arr.setNth {lst.term} {i} {v.term})"))
        for name, (ln, _, _) in keep.items():
            if ln == lname:
                self.elem.pop(name, None)
                self.env[name] = Val("stale", "")

    # ------------------------------------------------------------ emission
    def attr_order(self):
        return sorted(self.attrs)

    def emit(self):
        local = set(self.args) | {n for n, _ in self.lets}
        ren = {}
        for a in self.attr_order():
            nm = lean_ident(a)
            ren[a] = ("self_" + a) if (nm in local or a in local) else nm
        # longest attribute first: one name may be a suffix-extension of another
        pat = re.compile(r"self\.(" + "|".join(sorted(map(re.escape, ren), key=len, reverse=True)) + r")(?![A-Za-z0-9_])") if ren else None

        def sub(term):
            return pat.sub(lambda m: ren[m.group(1)], term) if pat else term
        binders = []
        for a in self.attr_order():
            binders.append(f"({ren[a]} : {'α' if self.attrs[a] == 'scal' else 'Arr α'})")
        for p in self.args:
            if self.env_kind0(p) == "weights":
                continue
            binders.append(f"({lean_ident(p)} : {'List (Arr α)' if p in self.list_args else 'Arr α'})")
        sig = " ".join(binders)

        def body(lets, final):
            ls = [f"  let {n} := {sub(t)}" for n, t in lets]
            return "\n".join(ls + ["  " + sub(final)])
        rty = "Arr α" if self.result.kind == "arr" else "List (Arr α)"
        fin = self.result.term if self.result.kind != "list" else "[" + ", ".join(self.result.term) + "]"
        out = [f"/-- `{self.owner}.{self.meth}` ({self.mod.rel}) -/",
               f"def {self.lean_name} {sig} : {rty} :=", body(self.lets, fin), ""]
        for a, (k, term) in sorted(self.retained.items()):
            out += [f"/-- what `{self.owner}.{self.meth}` retains in `self.{a}` ({self.mod.rel}) -/",
                    f"def {self.lean_name}_retained_{a} {sig} : Arr α :=", body(self.lets[:k], term), ""]
        return "\n".join(out)

    def env_kind0(self, p):
        return "weights" if (self.meth == "_update_weights" and p != self.args[-1]) else "arr"

    def data(self):
        return {"class": self.owner, "method": self.meth, "file": self.mod.rel,
                "params": [("self." + a, self.attrs[a]) for a in self.attr_order()]
                + [(p, "list" if p in self.list_args else "arr") for p in self.args if self.env_kind0(p) != "weights"],
                "lets": [[n, t] for n, t in self.lets],
                "result": self.result.term, "retained": {a: t for a, (_, t) in self.retained.items()}}


def translate():
    world = World()
    done, by_method = [], {}
    for lean_name, cls, meth in UNITS:
        u = Unit(world, lean_name, cls, meth, by_method).run()
        done.append(u)
        by_method.setdefault((u.owner, meth), u)
    return done


def nets():
    units = translate()
    data = {u.lean_name: u.data() for u in units}
    L = ["/- GENERATED by translator/nets.py from " + ", ".join(FILES) + " — do not edit.",
         "   One `def` per method over the untyped NumPy of GemVerif/Np.lean; parameters: the `self.*` attributes read",
         "   (sorted by name), then the method's arguments.  Props/C03Gen.lean proves them equal to Model/Nets.lean. -/",
         "import GemVerif.Np", "",
         "set_option linter.unusedVariables false", "",
         "namespace GemVerif.Gen.Nets",
         "open GemVerif GemVerif.RealLike GemVerif.Np", "",
         "variable {α : Type} [RealLike α]", ""]
    for u in units:
        L.append(u.emit())
    L += ["end GemVerif.Gen.Nets", ""]
    return data, "\n".join(L)


if __name__ == "__main__":
    d, t = nets()
    print(t)
