"""NumPy-expression translator for the Douglas differentiable tree (properties C15, C03, C18): `Douglas._leaf_binning`,
`_merge_leaf`, `_infer` (+ what it retains) and `_compute_grads` of gemclus/tree/douglas.py.

Reads the CURRENT source of /repo with python `ast` (gemclus is never imported) and emits `lean/GemVerif/Gen/Douglas.lean`: one `def`
per method (plus one `<unit>_retained_<attr>` per attribute `_infer` retains) over the untyped array DSL of `GemVerif/Np.lean` …
`Np5.lean`.  Props/C15Gen.lean proves every generated definition equal (no NumPy error, same shape, same entries) to the hand model
of Model/Douglas.lean (`binning`, `argsort`, `kron`, `infer`, `computeGrads`) that the C15 / C03Douglas / C18 theorems are stated about.

Built on translator/geminis.py (same values, same aliasing discipline, same `Arr.checked flags` convention: whatever is returned
carries the conjunction of the `ok` of EVERY array bound on the way).  Parameters of a generated `def`, in this FIXED order: the
`self.<attr>` attributes the method (or a method it calls) reads, sorted by attribute name — `self._all_binnings : List (Arr α)`,
`self._all_orders : List (Arr Nat)`, `self._leaf : Arr α` (as `self_all_binnings`, `self_all_orders`, `self_leaf`),
`self.cut_points_list_ : List (Nat × Arr α)` (feature index, 1-D array of cut points), `self.leaf_scores_ : Arr α`,
`self.temperature : α` —, then the method's own arguments without `self` and `retain`.

What is specific here:
  * 1-D arrays: `len(v)`, `np.linspace(a, b, num[, dtype=np.float64])`, `np.argsort(v)` (an integer array `Arr Nat`; also of an
    integer array), `v[order]` (fancy indexing by an integer array), `np.zeros(k)`, `np.concatenate([a, b])`, `np.cumsum(v)`,
    `v[k:]`, `v[:-k]`, `v[::-1]` / `np.flip(v)`, `.reshape((1, -1))` / `np.expand_dims(v, axis=0)`; `X[:, a:b]`; `softmax` (must be
    sklearn.utils.extmath.softmax).
  * `np.einsum("ij,ik->ijk", a, b)` (exactly this subscript string) and `T.reshape((-1, np.prod(T.shape[1:])))` of its 3-D result.
  * the same product by broadcasting, `a[:, :, np.newaxis] * b[:, np.newaxis, :]` (`Arr3.mul (Arr3.expandLast a) (Arr3.expandMid b)`,
    NumPy's broadcasting on the three axes), reshaped by `np.prod(T.shape[1:])` or by `a.shape[1] * b.shape[1]` (accepted only when
    `T` is the value of exactly that product of exactly these `a` and `b`: its trailing axes are then `a.shape[1]`, `b.shape[1]`).
  * `np.arange(a, b, dtype=np.float64)` for lengths / non-negative literals `a`, `b` (`Arr.arangeFrom`), `np.arange(n)` (the integer
    array `arangeN n`), `np.empty_like(v)` of a 1-D float / integer array (`Arr.emptyLike` / `emptyLikeN`: the entries are an
    opaque constant, nothing can be proved about them) and the scatter `g[order] = v` into a 1-D array the name `g` owns, through
    a 1-D integer array, of a 1-D array of the same kind that does not share memory with `g` (`Arr.setAt g order v`: the
    assignments are made in order, a repeated index keeps the last value).
  * `_infer`: the pipeline `f = lambda z: self._leaf_binning(X[:, z[0]:z[0] + 1], z[1])`, `it = map(f, self.cut_points_list_)`,
    `res = list(it)` is recognised BY SHAPE (a lambda of one parameter whose body is one call of `self._leaf_binning`, mapped over
    `self.cut_points_list_`, the one-shot iterator consumed exactly once by `list`) and becomes `cut_points_list_.map (fun z => …)`;
    `[x[0] for x in res]` / `[x[1] for x in res]` become `res.map (fun x => x.1 / x.2)`; `reduce(self._merge_leaf, L)`
    (functools.reduce, no initial value) becomes `Arr.reduce1 merge_leaf L`; `if retain: self.<attr> = <name>` is recorded.
  * `_compute_grads`: `tuple([-1] + [len(x[1]) + 1 for x in self.cut_points_list_])` (a list of trailing axes built from
    `cut_points_list_`), `A.reshape(axes)` (an `ArrN`: flat storage + axes), `A *= B` between two such arrays, the loop
    `for i, (_, c) in enumerate(self.cut_points_list_):` (or `for i in range(len(self.cut_points_list_)):`, also through a name
    bound to that length) as a `foldl` over `cut_points_list_.zipIdx` with state `(ok, updates)`,
    `tuple([1 + j for j in range(len(self.cut_points_list_)) if i != j])` (all trailing axes but the `i`-th), `A.sum(<those>)`
    (`ArrN.sumExcept A i`), `L[i]` on the retained lists, `updates = [x]`, `updates += [x]` / `updates.append(x)`.
Anything else raises TranslationFailure: the tie is then reported broken.
"""
import ast

from . import geminis as G
from . import tables
from .geminis import Returned, Val, tracked
from .tables import TranslationFailure
from .wass import _bindings, _imported_from

FILE = "gemclus/tree/douglas.py"
CLS = "Douglas"
# (Lean name, method, own arguments with kinds, default-valued trailing argument or None)
UNITS = [
    ("leaf_binning", "_leaf_binning", [("X", "arr2"), ("cut_points", "arr1")], None),
    ("merge_leaf", "_merge_leaf", [("leaf_res1", "arr2"), ("leaf_res2", "arr2")], None),
    ("infer", "_infer", [("X", "arr2")], "retain"),
    ("compute_grads", "_compute_grads", [("X", "arr2"), ("y_pred", "arr2"), ("gradient", "arr2")], None),
]
# attribute -> (kind, Lean parameter name, Lean type)
ATTRS = {
    "_all_binnings": ("arrlist", "self_all_binnings", "List (Arr α)"),
    "_all_orders": ("iarrlist", "self_all_orders", "List (Arr Nat)"),
    "_leaf": ("arr2", "self_leaf", "Arr α"),
    "cut_points_list_": ("cpl", "cut_points_list_", "List (Nat × Arr α)"),
    "leaf_scores_": ("arr2", "leaf_scores_", "Arr α"),
    "temperature": ("scal", "temperature", "α"),
}
RETAINABLE = {"_leaf": "arr2", "_all_binnings": "arrlist", "_all_orders": "iarrlist"}
RESULT_T = {"arr2": "Arr α", "pair": "Arr α × Arr Nat", "ulist": "List (Arr α)", "arrlist": "List (Arr α)", "iarrlist": "List (Arr Nat)"}
RESERVED = {"st", "zi", "loop", "flags", "nthN", "checkedN", "argsortN", "errN", "digitN", "log", "sqrt", "exp", "abs", "max",
            "min", "lt", "le", "beq", "sign", "clip", "sq"}
BUILTINS = ("len", "map", "list", "tuple", "range", "enumerate")
SYMBOLIC = ("lambda", "mapped", "axes_except", "cplitem", "pairitem", "emptylist")


def _check_function(unit, fn):
    """as geminis.check_plain_function, but a lambda is allowed (it is translated only where `_infer`'s pipeline expects one)"""
    for node in ast.walk(fn):
        if node is not fn and isinstance(node, (ast.Yield, ast.YieldFrom, ast.Await, ast.Global, ast.Nonlocal, ast.FunctionDef,
                                                 ast.AsyncFunctionDef, ast.ClassDef)):
            unit.fail(f"{fn.name}: {type(node).__name__} inside the method", node)


class Unit(G.Unit):
    def __init__(self, rel, tree, numpy_names, lean_name, meth, params, dflt, done):
        self.rel, self.numpy, self.lean_name, self.meth = rel, numpy_names, lean_name, meth
        self.where = f"{CLS}.{meth}"
        self.params, self.dflt, self.done_units = params, dflt, done
        node = next((n for n in tree.body if isinstance(n, ast.ClassDef) and n.name == CLS), None)
        if node is None:
            self.fail(f"class {CLS} not found")
        fns = [f for f in node.body if isinstance(f, (ast.FunctionDef, ast.AsyncFunctionDef)) and f.name == meth]
        if len(fns) != 1 or not isinstance(fns[0], ast.FunctionDef):
            self.fail(f"expected exactly one method {meth} in the class body")
        for item in node.body:      # a class-level rebinding of a translated method's name would change what `self.<m>` means
            if isinstance(item, ast.Assign) and any(isinstance(t, ast.Name) and t.id == meth for t in item.targets):
                self.fail(f"{meth} is rebound in the class body")
        self.fn = fns[0]
        if self.fn.decorator_list:
            self.fail("decorated method")
        _check_function(self, self.fn)
        self.helpers = G.module_helpers(tree)
        counts = _bindings(tree)
        self.softmax = {n for n in _imported_from(tree, "sklearn.utils.extmath", "softmax")}
        self.reduce_names = {n for n in _imported_from(tree, "functools", "reduce")}
        self.builtins_ok = {b for b in BUILTINS if counts.get(b, 0) == 0}
        self.scopes, self.mi_stack = [], []
        self.pynames = {n.id for n in ast.walk(self.fn) if isinstance(n, ast.Name)} | {a.arg for a in self.fn.args.args}
        self.used = set(RESERVED) | {u[0] for u in UNITS} | {v[1] for v in ATTRS.values()}
        self.lets, self.oks, self.checks = [], [], []
        self.env, self.aliased = {}, set()
        self.attrs = set()
        self.retained = {}                   # attribute -> (number of lets, number of oks, number of checks, Val)
        self.result = None
        self.depth = 0
        self.consumed = set()                # one-shot iterators (map objects) already consumed
        self.natdef = {}                     # Lean name of a let-bound length -> the term it was bound to
        self.expanded = {}                   # Lean term of `x[:, :, np.newaxis]` / `x[:, np.newaxis, :]` -> (DSL operation, term of x)
        self.tail3 = {}                      # Lean term / let-bound name of a 3-d product -> the terms of its two trailing axes

    # ------------------------------------------------------------ helpers
    def builtin(self, f, name):
        return isinstance(f, ast.Name) and f.id == name and name in self.builtins_ok and name not in self.env

    def fresh_name(self, py):
        return super().fresh_name("py_" + py if G._lean_ident(py) in RESERVED else py)

    def describe(self, v):
        return {"iarr": "integer array", "arrlist": "list of arrays", "iarrlist": "list of integer arrays", "cpl": "cut_points_list_",
                "pairlist": "list of (memberships, order) pairs", "pair": "(memberships, order) pair", "ulist": "list of updates",
                "axes": "tuple of axes", "axes_except": "tuple of axes", "ndarr": "N-d array", "lambda": "lambda", "mapped": "map object",
                "cplitem": "(feature, cut points) pair", "pairitem": "(memberships, order) pair", "emptylist": "empty list"}.get(v.kind) or super().describe(v)

    def attr(self, name, node):
        if name not in ATTRS:
            self.fail(f"read of self.{name}: not one of the attributes this translator knows ({', '.join(sorted(ATTRS))})", node)
        if name in self.retained:
            self.fail(f"self.{name} is both written and read", node)
        self.attrs.add(name)
        kind, lean, _ = ATTRS[name]
        if kind == "scal":
            return Val("scal", lean, mi=False)
        if kind == "arr2":
            return Val("arr", lean, 2, False, {"self." + name}, mi=False)
        return Val(kind, lean, None, False, {"self." + name})

    def nat_term(self, e):
        """the Lean `Nat` term of a length / index / bound, or None"""
        i = self.literal_int(e)
        if i is not None:
            return str(i) if i >= 0 else None
        if isinstance(e, ast.BinOp) and isinstance(e.op, ast.Add):
            a, b = self.nat_term(e.left), self.nat_term(e.right)
            return None if a is None or b is None else f"({a} + {b})"
        if isinstance(e, ast.Name):
            v = self.env.get(e.id)
            return v.term if v is not None and v.kind == "nat" else None
        if isinstance(e, (ast.Subscript, ast.Call)):
            try:
                v = self.expr(e)
            except TranslationFailure:
                return None
            return v.term if v.kind == "nat" else None
        return None

    def nat_resolve(self, term):
        seen = 0
        while term in self.natdef and seen < 16:
            term, seen = self.natdef[term], seen + 1
        return term

    def is_cpl_length(self, e):
        t = self.nat_term(e)
        return t is not None and self.nat_resolve(t) == f"{ATTRS['cut_points_list_'][1]}.length"

    def self_method(self, f):
        """the translated unit `self.<method>` refers to, or None"""
        if isinstance(f, ast.Attribute) and isinstance(f.value, ast.Name) and f.value.id == "self" and "self" not in self.env:
            for u in self.done_units.values():
                if u.meth == f.attr:
                    return u
        return None

    def unit_call_term(self, u, node):
        """`<unit> <attribute parameters>` (the attributes the callee reads become attributes this unit reads)"""
        if u.retained:
            self.fail(f"call of {u.meth}, which writes attributes", node)
        terms = [u.lean_name]
        for a in sorted(u.attrs):
            self.attrs.add(a)
            terms.append(ATTRS[a][1])
        return terms

    def full_slice(self, s):
        return isinstance(s, ast.Slice) and s.lower is None and s.upper is None and s.step is None

    def sub_scope(self):
        saved = (self.lets, self.oks, self.checks, self.env, self.aliased)
        self.lets, self.oks, self.checks, self.env, self.aliased = [], [], [], dict(self.env), set(self.aliased)
        return saved

    def close_scope(self, saved, term, checker):
        """the Lean term of an expression translated in a scope of its own (lambda / comprehension body)"""
        flags = " && ".join([f"{n}.ok" for n in self.oks] + list(dict.fromkeys(self.checks)))
        body = "".join(f"let {n} := {t}; " for n, t in self.lets)
        body += f"let flags := {flags}; {checker('flags', term)}" if flags else term
        self.lets, self.oks, self.checks, self.env, self.aliased = saved
        return body

    # ------------------------------------------------------------ expressions
    @tracked
    def expr(self, e):
        if isinstance(e, ast.Attribute) and isinstance(e.value, ast.Name) and e.value.id == "self" and "self" not in self.env \
                and not self.scopes:
            return self.attr(e.attr, e)
        if isinstance(e, ast.Name) and e.id in self.env and self.env[e.id].kind not in ("arr", "mask", "scal", "nat"):
            v = self.env[e.id]
            if v.kind in SYMBOLIC or v.kind == "axes":
                return v
            return Val(v.kind, v.term, v.nd, False, v.roots | {e.id}, lit=v.lit)
        if isinstance(e, ast.Subscript) and not (isinstance(e.value, ast.Attribute) and e.value.attr == "shape"):
            return self.subscript(e)
        if isinstance(e, ast.BinOp) and isinstance(e.op, ast.Add) and isinstance(e.left, ast.Tuple):
            ax = self.axes_of_cpl(e)                      # `(-1,) + tuple(… for … in self.cut_points_list_)`
            if ax is not None:
                return ax
        if isinstance(e, ast.List) and not e.elts:
            return Val("emptylist", "[]", None, True)                   # filled by the loop of `_infer` (see `loop_map`)
        if isinstance(e, ast.List) and e.elts:
            items = []
            roots = set()
            for x in e.elts:
                v = self.expr(x)
                if v.kind != "arr" or v.nd not in (1, 2):
                    self.fail(f"list literal: the elements must be 1-d / 2-d float arrays, got {self.describe(v)}", e)
                items.append(v.term)
                roots |= set(v.roots)
            return Val("ulist", "[" + ", ".join(items) + "]", None, True, roots)
        if isinstance(e, ast.ListComp):
            return self.comprehension(e)
        v = super().expr(e)
        if isinstance(e, ast.BinOp) and isinstance(e.op, ast.Mult) and v.kind == "arr" and v.nd == 3:
            # `a[:, :, np.newaxis] * b[:, np.newaxis, :]` has the trailing axes `(a.shape[1], b.shape[1])`
            for ta, (opa, xa) in self.expanded.items():
                for tb, (opb, xb) in self.expanded.items():
                    if opa == "Arr3.expandLast" and opb == "Arr3.expandMid" and v.term == f"(Arr3.mul {ta} {tb})":
                        self.tail3[v.term] = (f"{xa}.c", f"{xb}.c")
        return v

    def subscript(self, e):
        sl = e.slice
        idx = list(sl.elts) if isinstance(sl, ast.Tuple) else [sl]
        if any(self.newaxis(x) for x in idx):
            v = super().expr(e)              # ONE np.newaxis among full slices: Arr3.expandMid / expandLast / … (a view)
            if v.kind == "arr" and v.nd == 3:
                op, x = v.term[1:-1].split(" ", 1)
                self.expanded[v.term] = (op, x)
            return v
        a = self.expr(e.value)
        if a.kind == "cplitem":
            i = self.literal_int(sl)
            if i == 0:
                return Val("nat", f"{a.term}.1")
            if i == 1:
                return Val("arr", f"{a.term}.2", 1, False, {"self.cut_points_list_"}, mi=False)
            self.fail("subscript of a (feature, cut points) pair: only [0] and [1]", e)
        if a.kind == "pairitem":
            i = self.literal_int(sl)
            if i == 0:
                return Val("arr", f"{a.term}.1", 2, False, a.roots, mi=False)
            if i == 1:
                return Val("iarr", f"{a.term}.2", 1, False, a.roots)
            self.fail("subscript of a (memberships, order) pair: only [0] and [1]", e)
        if a.kind in ("arrlist", "iarrlist") and not isinstance(sl, (ast.Slice, ast.Tuple)):
            k = self.nat_term(sl)
            if k is not None:
                if a.kind == "arrlist":
                    return Val("arr", f"(Arr.nth {a.term} {k})", 2, False, a.roots, mi=False)
                return Val("iarr", f"(nthN {a.term} {k})", 1, False, a.roots)
            self.fail("subscript of a list of arrays: only L[i] for a loop index / length i", e)
        if a.kind == "arr" and a.nd == 1:
            if isinstance(sl, ast.Slice):
                if sl.lower is None and sl.upper is None and self.literal_int(sl.step) == -1:
                    return Val("arr", f"(Arr.flipCols {a.term})", 1, False, a.roots)         # a view
                k = self.literal_int(sl.lower) if sl.lower is not None else None
                if k is not None and k >= 0 and sl.upper is None and sl.step is None:
                    return Val("arr", f"(Arr.drop1 {a.term} {k})", 1, False, a.roots)         # a view
                k = self.literal_int(sl.upper) if sl.upper is not None else None
                if k is not None and k <= -1 and sl.lower is None and sl.step is None:
                    return Val("arr", f"(Arr.dropLast1 {a.term} {-k})", 1, False, a.roots)    # a view
            elif not isinstance(sl, ast.Tuple):
                i = self.expr(sl)
                if i.kind == "iarr" and i.nd == 1:
                    return Val("arr", f"(Arr.take1 {a.term} {i.term})", 1, True)               # fancy indexing copies
        if a.kind == "arr" and a.nd == 2 and isinstance(sl, ast.Tuple) and len(sl.elts) == 2 and self.full_slice(sl.elts[0]) \
                and isinstance(sl.elts[1], ast.Slice) and sl.elts[1].step is None and sl.elts[1].lower is not None \
                and sl.elts[1].upper is not None:
            lo, hi = self.nat_term(sl.elts[1].lower), self.nat_term(sl.elts[1].upper)
            if lo is not None and hi is not None:
                return Val("arr", f"(Arr.colSlice {a.term} {lo} {hi})", 2, False, a.roots)     # a view
        self.fail("unsupported subscript (only v[order], v[k:], v[:-k], v[::-1], X[:, a:b], L[i], z[0], z[1])", e)

    def comprehension(self, e):
        """`[<expression in x> for x in <list of (memberships, order) pairs>]`"""
        if len(e.generators) != 1:
            self.fail("comprehension with several `for`", e)
        g = e.generators[0]
        if g.ifs or g.is_async or not isinstance(g.target, ast.Name):
            self.fail("comprehension: only [<expression> for <name> in <list>]", e)
        it = self.expr(g.iter)
        if it.kind != "pairlist":
            self.fail(f"comprehension over {self.describe(it)} (only over the list of results of _leaf_binning)", e)
        saved = self.sub_scope()
        x = self.fresh_name(g.target.id)
        self.env[g.target.id] = Val("pairitem", x, roots=it.roots)
        elt = self.expr(e.elt)
        if elt.kind == "arr" and elt.nd == 2:
            kind, chk = "arrlist", lambda f, t: f"Arr.checked {f} {t}"
        elif elt.kind == "iarr" and elt.nd == 1:
            kind, chk = "iarrlist", lambda f, t: f"checkedN {f} {t}"
        else:
            self.fail(f"comprehension: the elements must be 2-d float arrays or 1-d integer arrays, got {self.describe(elt)}", e)
        body = self.close_scope(saved, elt.term, chk)
        return Val(kind, f"({it.term}.map (fun {x} => {body}))", None, True, it.roots)

    def reshape(self, a, call, args):
        if a.kind == "arr" and a.nd == 3:
            # T.reshape((-1, np.prod(T.shape[1:])))
            if len(args) == 1 and isinstance(args[0], ast.Tuple):
                args = args[0].elts
            if len(args) == 2 and self.literal_int(args[0]) == -1 and isinstance(args[1], ast.BinOp) \
                    and isinstance(args[1].op, ast.Mult) and a.term in self.tail3:
                # T.reshape((-1, a.shape[1] * b.shape[1])) of T = a[:, :, np.newaxis] * b[:, np.newaxis, :]: the same number
                dims = [self.nat_term(args[1].left), self.nat_term(args[1].right)]
                if dims == list(self.tail3[a.term]) or dims == list(self.tail3[a.term])[::-1]:
                    return Val("arr", f"(Arr3.flattenTail {a.term})", 2, False, a.roots)
                self.fail("reshape of a 3-d array: the second axis is not the product of its two trailing axes as written", call)
            ok = len(args) == 2 and self.literal_int(args[0]) == -1 and isinstance(args[1], ast.Call) \
                and self.is_np(args[1].func, {"prod"}) and len(args[1].args) == 1 and not args[1].keywords
            if ok:
                s = args[1].args[0]
                ok = isinstance(s, ast.Subscript) and isinstance(s.value, ast.Attribute) and s.value.attr == "shape" \
                    and isinstance(s.slice, ast.Slice) and self.literal_int(s.slice.lower) == 1 and s.slice.upper is None \
                    and s.slice.step is None
                if ok:
                    b = self.expr(s.value.value)
                    ok = b.kind == "arr" and b.nd == 3 and b.term == a.term
            if not ok:
                self.fail("reshape of a 3-d array: only T.reshape((-1, np.prod(T.shape[1:]))) and, of a[:, :, np.newaxis] * "
                          "b[:, np.newaxis, :], T.reshape((-1, a.shape[1] * b.shape[1]))", call)
            return Val("arr", f"(Arr3.flattenTail {a.term})", 2, False, a.roots)
        if a.kind == "arr" and a.nd == 2 and len(args) == 1:
            try:
                ax = self.expr(args[0])
            except TranslationFailure:
                ax = None
            if ax is not None and ax.kind == "axes":
                return Val("ndarr", f"(ArrN.reshapeOf {a.term} {ax.term})", None, False, a.roots, lit="cpl")
        return super().reshape(a, call, args)

    def axes_of_cpl(self, e):
        """`tuple([-1] + [len(x[1]) + 1 for x in self.cut_points_list_])` (also `(-1,) + tuple(<generator>)`, the target of the
        comprehension a name or a pair of names): the list of trailing axes, or None"""
        def minus_one(x):
            return isinstance(x, (ast.List, ast.Tuple)) and len(x.elts) == 1 and self.literal_int(x.elts[0]) == -1

        def comp_of(x):
            if isinstance(x, ast.Call) and (self.builtin(x.func, "tuple") or self.builtin(x.func, "list")) and len(x.args) == 1 \
                    and not x.keywords:
                x = x.args[0]
            return x if isinstance(x, (ast.ListComp, ast.GeneratorExp)) else None
        inner = e
        if isinstance(e, ast.Call) and self.builtin(e.func, "tuple") and len(e.args) == 1 and not e.keywords:
            inner = e.args[0]
        if not (isinstance(inner, ast.BinOp) and isinstance(inner.op, ast.Add) and minus_one(inner.left)):
            return None
        if inner is e and not isinstance(inner.left, ast.Tuple):
            return None                      # a list is not a shape unless wrapped in tuple(...)  (NumPy accepts it, kept strict)
        comp = comp_of(inner.right)
        if comp is None or len(comp.generators) != 1:
            return None
        g = comp.generators[0]
        if g.ifs or g.is_async:
            return None
        it = self.expr(g.iter)
        if it.kind != "cpl":
            return None
        saved = self.sub_scope()
        try:
            x = self.fresh_name("x")
            t = g.target
            if isinstance(t, ast.Name):
                self.env[t.id] = Val("cplitem", x)
            elif isinstance(t, ast.Tuple) and len(t.elts) == 2 and all(isinstance(y, ast.Name) for y in t.elts) \
                    and t.elts[0].id != t.elts[1].id:
                self.env[t.elts[0].id] = Val("nat", f"{x}.1")
                self.env[t.elts[1].id] = Val("arr", f"{x}.2", 1, False, {"self.cut_points_list_"}, mi=False)
            else:
                return None
            term = self.nat_term(comp.elt)
            if term is None or self.lets:
                return None
        finally:
            self.lets, self.oks, self.checks, self.env, self.aliased = saved
        if term.startswith("(") and term.endswith(")"):
            term = term[1:-1]
        return Val("axes", f"({it.term}.map (fun {x} => {term}))", lit="cpl")

    def axes_except(self, e):
        """`tuple([1 + j for j in range(len(self.cut_points_list_)) if i != j])`: all the trailing axes but the `i`-th, or None"""
        if not (isinstance(e, ast.Call) and self.builtin(e.func, "tuple") and len(e.args) == 1 and not e.keywords):
            return None
        comp = e.args[0]
        if not isinstance(comp, (ast.ListComp, ast.GeneratorExp)) or len(comp.generators) != 1:
            return None
        g = comp.generators[0]
        if g.is_async or len(g.ifs) != 1 or not isinstance(g.target, ast.Name) or g.target.id in self.env:
            return None
        j = g.target.id
        el = comp.elt
        if not (isinstance(el, ast.BinOp) and isinstance(el.op, ast.Add)):
            return None
        sides = [el.left, el.right]
        if not any(isinstance(s, ast.Name) and s.id == j for s in sides) or not any(self.literal_int(s) == 1 for s in sides):
            return None
        it = g.iter
        if not (isinstance(it, ast.Call) and self.builtin(it.func, "range") and len(it.args) == 1 and not it.keywords):
            return None
        if not self.is_cpl_length(it.args[0]):
            return None
        c = g.ifs[0]
        if not (isinstance(c, ast.Compare) and len(c.ops) == 1 and isinstance(c.ops[0], ast.NotEq)):
            return None
        names = [c.left, c.comparators[0]]
        if not all(isinstance(x, ast.Name) for x in names) or sorted(x.id == j for x in names) != [False, True]:
            return None
        other = next(x for x in names if x.id != j)
        v = self.env.get(other.id)
        if v is None or v.kind != "nat":
            return None
        return Val("axes_except", v.term)

    def call(self, e):
        f = e.func
        n = len(e.args)
        nokw = not e.keywords
        ax = self.axes_of_cpl(e) or self.axes_except(e)
        if ax is not None:
            return ax
        if isinstance(f, ast.Name) and f.id in self.softmax and f.id not in self.env:
            if n != 1 or not nokw:
                self.fail("softmax with extra arguments", e)
            a = self.arr(self.expr(e.args[0]), e, "softmax", 2)
            return Val("arr", f"(Arr.softmax {a.term})", 2, True, mi=False)
        if self.builtin(f, "len") and n == 1 and nokw:
            a = self.expr(e.args[0])
            if a.kind in ("cpl", "arrlist", "iarrlist", "pairlist", "ulist"):
                return Val("nat", f"{a.term}.length")
            if a.kind == "iarr" and a.nd == 1:
                return Val("nat", f"{a.term}.c")
        if self.is_np(f, {"linspace"}):
            kw = {k.arg: k.value for k in e.keywords}
            if n != 3 or set(kw) - {"dtype"} or len(kw) != len(e.keywords):
                self.fail("np.linspace: only np.linspace(start, stop, num[, dtype=np.float64])", e)
            if "dtype" in kw and not (self.is_np(kw["dtype"], {"float64", "double"}) or
                                      (isinstance(kw["dtype"], ast.Name) and kw["dtype"].id == "float" and "float" not in self.env)):
                self.fail("np.linspace: only dtype=np.float64", e)
            a = self.scal(self.expr(e.args[0]), e, "np.linspace")
            b = self.scal(self.expr(e.args[1]), e, "np.linspace")
            num = self.nat_term(e.args[2])
            if num is None:
                self.fail("np.linspace: the number of points must be a length plus non-negative integer literals", e)
            return Val("arr", f"(Arr.linspace {a} {b} {num})", 1, True, mi=False)
        if self.is_np(f, {"arange"}):
            kw = {k.arg: k.value for k in e.keywords}
            if n == 1 and nokw:
                k = self.nat_term(e.args[0])
                if k is None:
                    self.fail("np.arange(n): n must be a length plus non-negative integer literals", e)
                return Val("iarr", f"(arangeN {k})", 1, True)
            if n != 2 or set(kw) != {"dtype"} or len(e.keywords) != 1 or not self.is_np(kw["dtype"], {"float64", "double"}):
                self.fail("np.arange: only np.arange(n) and np.arange(start, stop, dtype=np.float64)", e)
            lo, hi = self.nat_term(e.args[0]), self.nat_term(e.args[1])
            if lo is None or hi is None:
                self.fail("np.arange: the bounds must be lengths plus non-negative integer literals", e)
            return Val("arr", f"(Arr.arangeFrom {lo} {hi})", 1, True, mi=False)
        if self.is_np(f, {"empty_like"}) and n == 1 and nokw:
            a = self.expr(e.args[0])
            if a.kind == "arr" and a.nd == 1:
                return Val("arr", f"(Arr.emptyLike {a.term})", 1, True, mi=bool(a.mi))
            if a.kind == "iarr" and a.nd == 1:
                return Val("iarr", f"(emptyLikeN {a.term})", 1, True)
            self.fail(f"np.empty_like of {self.describe(a)} (only of 1-d arrays)", e)
        if self.is_np(f, {"argsort"}) and n == 1 and nokw:
            a = self.expr(e.args[0])
            if a.kind == "arr" and a.nd == 1:
                return Val("iarr", f"(Arr.argsort1 {a.term})", 1, True)
            if a.kind == "iarr" and a.nd == 1:
                return Val("iarr", f"(argsortN {a.term})", 1, True)
            self.fail(f"np.argsort of {self.describe(a)} (only of 1-d arrays)", e)
        if self.is_np(f, {"cumsum"}) and n == 1 and nokw:
            a = self.arr(self.expr(e.args[0]), e, "np.cumsum", 1)
            return Val("arr", f"(Arr.cumsumAxis1 {a.term})", 1, True)
        if self.is_np(f, {"flip"}) and n == 1 and nokw:
            a = self.arr(self.expr(e.args[0]), e, "np.flip", 1)
            return Val("arr", f"(Arr.flipCols {a.term})", 1, False, a.roots)
        if self.is_np(f, {"zeros"}) and n == 1 and nokw:
            k = self.literal_int(e.args[0])
            if k is None or k < 0:
                self.fail("np.zeros: only np.zeros(<non-negative integer literal>)", e)
            return Val("arr", f"(Arr.zeros 1 {k})", 1, True, mi=False)
        if self.is_np(f, {"concatenate"}):
            kw = {k.arg: k.value for k in e.keywords}
            if n != 1 or set(kw) - {"axis"} or not isinstance(e.args[0], (ast.List, ast.Tuple)) or len(e.args[0].elts) != 2 \
                    or ("axis" in kw and self.literal_int(kw["axis"]) not in (0, -1)):
                self.fail("np.concatenate: only np.concatenate([a, b]) of two 1-d arrays", e)
            a, b = [self.arr(self.expr(x), e, "np.concatenate", 1) for x in e.args[0].elts]
            return Val("arr", f"(Arr.concat1 {a.term} {b.term})", 1, True)
        if self.is_np(f, {"einsum"}):
            if n != 3 or not nokw or not (isinstance(e.args[0], ast.Constant) and isinstance(e.args[0].value, str)
                                          and e.args[0].value.replace(" ", "") == "ij,ik->ijk"):
                self.fail('np.einsum: only np.einsum("ij,ik->ijk", a, b)', e)
            a = self.arr(self.expr(e.args[1]), e, "np.einsum", 2)
            b = self.arr(self.expr(e.args[2]), e, "np.einsum", 2)
            return Val("arr", f"(Arr3.einsumIjIk {a.term} {b.term})", 3, True)
        if isinstance(f, ast.Name) and f.id in self.reduce_names and f.id not in self.env:
            if n != 2 or not nokw:
                self.fail("reduce: only reduce(self.<method>, <list of arrays>)", e)
            u = self.self_method(e.args[0])
            L = self.expr(e.args[1])
            if u is None or [k for _, k in u.params] != ["arr2", "arr2"] or u.result.kind != "arr" or L.kind != "arrlist":
                self.fail("reduce: only reduce(self.<translated method of two 2-d arrays>, <list of 2-d arrays>)", e)
            terms = self.unit_call_term(u, e)
            fn = terms[0] if len(terms) == 1 else f"(fun a b => {' '.join(terms)} a b)"
            return Val("arr", f"(Arr.reduce1 {fn} {L.term})", 2, False, L.roots)      # the single element of a one-element list
        u = self.self_method(f)
        if u is not None:
            if not nokw or n != len(u.params):
                self.fail(f"self.{u.meth}(…): arguments do not match the signature", e)
            terms = self.unit_call_term(u, e)
            for x, (pname, kind) in zip(e.args, u.params):
                v = self.expr(x)
                self.arr(v, x, f"argument {pname}", int(kind[-1]))
                terms.append(v.term)
            term = "(" + " ".join(terms) + ")"
            if u.result.kind == "tuple":
                return Val("pair", term)
            return Val("arr", term, 2, True)
        # x.sum(axes) / np.sum(x, axis=axes) of an N-d array
        target, rest = None, None
        if isinstance(f, ast.Attribute) and f.attr == "sum" and not self.is_np(f, {"sum"}):
            target, rest = f.value, list(e.args)
        elif self.is_np(f, {"sum"}) and n >= 1:
            target, rest = e.args[0], list(e.args[1:])
        if target is not None:
            axis = rest[0] if len(rest) == 1 and nokw else \
                e.keywords[0].value if not rest and len(e.keywords) == 1 and e.keywords[0].arg == "axis" else None
            if axis is not None and isinstance(axis, (ast.Name, ast.Call)):
                try:
                    axv = self.expr(axis)
                except TranslationFailure:
                    axv = None
                if axv is not None and axv.kind == "axes_except":
                    a = self.expr(target)
                    if a.kind != "ndarr" or a.lit != "cpl":
                        self.fail("sum over all trailing axes but one: only of an array reshaped to the axes of cut_points_list_", e)
                    return Val("arr", f"(ArrN.sumExcept {a.term} {axv.term})", 2, True)
        return super().call(e)

    # ------------------------------------------------------------ statements
    def bind(self, name, v, node):
        if name in self.softmax or name in self.reduce_names or name in BUILTINS or name in ("self", "super"):
            self.fail(f"assignment to {name}", node)
        if v.kind in SYMBOLIC:
            if v.kind == "emptylist" and (v.roots or not v.fresh):
                self.fail("a second name for an empty list", node)
            self.env[name] = v
            self.aliased.discard(name)
            return
        if v.kind == "nat":
            super().bind(name, v, node)
            self.natdef[self.env[name].term] = v.term      # `n = len(self.cut_points_list_)`: what the name stands for
            return
        if v.kind == "pair":
            self.fail("a (memberships, order) pair must be unpacked or indexed", node)
        if v.kind in ("iarr", "ndarr", "arrlist", "iarrlist", "pairlist", "ulist", "axes"):
            lean = self.fresh_name(name)
            self.lets.append((lean, v.term))
            if v.kind in ("iarr", "ndarr"):
                self.oks.append(lean)
            for r in v.roots:
                self.aliased.add(r)
            self.aliased.discard(name)
            if v.roots or not v.fresh:
                self.aliased.add(name)
            self.env[name] = Val(v.kind, lean, v.nd, v.fresh and not v.roots, v.roots, lit=v.lit)
            return
        super().bind(name, v, node)
        if v.kind == "arr" and v.nd == 3 and v.term in self.tail3:
            self.tail3[self.env[name].term] = self.tail3[v.term]

    def owned_any(self, name, kinds, node, what):
        cur = self.env.get(name)
        if cur is None or cur.kind not in kinds:
            self.fail(f"{what} of {name}, which is not {' / '.join(kinds)}", node)
        if not cur.fresh or name in self.aliased:
            self.fail(f"{what} of {name}, which is (or may be) shared with another name, a parameter or an attribute", node)
        return cur

    def stmt(self, st):
        if self.scopes and isinstance(st, (ast.Return, ast.For, ast.While)):
            return self.helper_stmt(st)
        if isinstance(st, ast.If):
            return self.retain_block(st)
        if isinstance(st, ast.For):
            return self.loop(st)
        if isinstance(st, ast.Return):
            if st.value is None:
                self.fail("return without value", st)
            if isinstance(st.value, ast.Tuple):
                self.result = Val("tuple", [self.expr(x) for x in st.value.elts])
            else:
                self.result = self.expr(st.value)
            raise Returned()
        if isinstance(st, ast.Assign) and len(st.targets) == 1 and isinstance(st.targets[0], ast.Name):
            name, val = st.targets[0].id, st.value
            if isinstance(val, ast.Lambda):
                a = val.args
                if a.vararg or a.kwarg or a.kwonlyargs or a.posonlyargs or a.defaults or len(a.args) != 1:
                    self.fail("lambda: only a lambda of one parameter", st)
                if not (isinstance(val.body, ast.Call) and self.self_method(val.body.func) is not None):
                    self.fail("lambda: the body must be one call of a translated method of self", st)
                free = {x.id for x in ast.walk(val.body) if isinstance(x, ast.Name)} - {a.args[0].arg, "self"}
                self.bind(name, Val("lambda", (a.args[0].arg, val.body, free)), st)
                for x in free:                    # the closure reads these variables when it is CALLED: they must not change
                    self.aliased.add(x)
                return
            if isinstance(val, ast.Call) and self.builtin(val.func, "map"):
                if len(val.args) != 2 or val.keywords or not isinstance(val.args[0], ast.Name):
                    self.fail("map: only map(<lambda variable>, self.cut_points_list_)", st)
                fn = self.env.get(val.args[0].id)
                it = self.expr(val.args[1])
                if fn is None or fn.kind != "lambda" or it.kind != "cpl":
                    self.fail("map: only map(<lambda variable>, self.cut_points_list_)", st)
                self.bind(name, Val("mapped", (fn.term, it.term, object())), st)
                return
            if isinstance(val, ast.Call) and self.builtin(val.func, "list") and len(val.args) == 1 and not val.keywords \
                    and isinstance(val.args[0], ast.Name) and self.env.get(val.args[0].id, Val("", "")).kind == "mapped":
                (param, body, free), it_term, token = self.env[val.args[0].id].term
                if token in self.consumed:
                    self.fail("a map object is consumed twice (the second time it is empty)", st)
                self.consumed.add(token)
                for x in free:
                    if x not in self.env or self.env[x].kind not in ("arr", "scal", "nat"):
                        self.fail(f"lambda: free variable {x} is not an array / scalar of the method", st)
                saved = self.sub_scope()
                z = self.fresh_name(param)
                self.env[param] = Val("cplitem", z)
                res = self.expr(body)
                if res.kind != "pair":
                    self.fail("list(map(…)): the lambda must return what _leaf_binning returns", st)
                term = self.close_scope(saved, res.term, lambda f, t: self.fail("flags inside a lambda", st))
                self.bind(name, Val("pairlist", f"({it_term}.map (fun {z} => {term[1:-1]}))", None, True), st)
                return
            cur = self.env.get(name)
            if isinstance(val, ast.Call) and isinstance(val.func, ast.Attribute) and val.func.attr == "reshape" \
                    and isinstance(val.func.value, ast.Name) and val.func.value.id == name and cur is not None and cur.kind == "arr" \
                    and cur.nd == 2 and cur.fresh and name not in self.aliased:
                v = self.expr(val)
                if v.kind == "ndarr":
                    # the only reference to the 2-d array is now this view of it: the name owns the N-d array
                    self.bind(name, Val("ndarr", v.term, None, True, lit=v.lit), st)
                    return
        if isinstance(st, ast.Assign) and len(st.targets) == 1 and isinstance(st.targets[0], ast.Subscript) \
                and isinstance(st.targets[0].value, ast.Name) and not isinstance(st.targets[0].slice, (ast.Tuple, ast.Slice)):
            name = st.targets[0].value.id
            cur = self.env.get(name)
            if cur is not None and cur.nd == 1 and cur.kind in ("arr", "iarr"):
                idx = self.expr(st.targets[0].slice)
                if idx.kind == "iarr" and idx.nd == 1:
                    # `g[order] = v`: a scatter into the 1-d array the name `g` owns
                    if cur.kind == "arr":
                        cur = self.owned(name, st, "indexed assignment")
                    else:
                        cur = self.owned_any(name, ("iarr",), st, "indexed assignment")
                    v = self.expr(st.value)
                    if v.kind != cur.kind or v.nd != 1:
                        self.fail(f"indexed assignment of {self.describe(v)} into a 1-d {self.describe(cur)} "
                                  "(only a 1-d array of the same kind)", st)
                    if name in v.roots or name in idx.roots:
                        self.fail("indexed assignment whose value or index shares memory with the target", st)
                    if cur.kind == "arr" and v.mi:
                        self.fail("indexed assignment of an array whose dtype may be an integer one", st)
                    self.bind(name, Val(cur.kind, f"(Arr.setAt {cur.term} {idx.term} {v.term})", 1, True, mi=False), st)
                    return
        if isinstance(st, ast.AugAssign) and isinstance(st.target, ast.Name):
            cur = self.env.get(st.target.id)
            if cur is not None and cur.kind == "ndarr":
                cur = self.owned_any(st.target.id, ("ndarr",), st, "in-place update")
                rhs = self.expr(st.value)
                if not isinstance(st.op, ast.Mult) or rhs.kind != "ndarr":
                    self.fail("in-place update of an N-d array: only A *= <N-d array of the same axes>", st)
                self.bind(st.target.id, Val("ndarr", f"(ArrN.mul {cur.term} {rhs.term})", None, True, lit=cur.lit), st)
                return
            if cur is not None and cur.kind == "ulist":
                if not isinstance(st.op, ast.Add):
                    self.fail("in-place update of a list: only L += [x]", st)
                return self.append(st.target.id, st.value, st)
        if isinstance(st, ast.Expr) and isinstance(st.value, ast.Call) and isinstance(st.value.func, ast.Attribute) \
                and st.value.func.attr == "append" and isinstance(st.value.func.value, ast.Name) \
                and self.env.get(st.value.func.value.id, Val("", "")).kind == "ulist":
            c = st.value
            if len(c.args) != 1 or c.keywords:
                self.fail("append: only L.append(x)", st)
            return self.append(c.func.value.id, ast.List(elts=[c.args[0]], ctx=ast.Load()), st)
        return super().stmt(st)

    def append(self, name, value, st):
        cur = self.owned_any(name, ("ulist",), st, "append")
        rhs = self.expr(value)
        if rhs.kind != "ulist":
            self.fail(f"list += {self.describe(rhs)} (only a list literal of arrays)", st)
        for r in rhs.roots:
            self.aliased.add(r)
        self.bind(name, Val("ulist", f"({cur.term} ++ {rhs.term})", None, True), st)

    def retain_block(self, st):
        if self.dflt is None or not (isinstance(st.test, ast.Name) and st.test.id == self.dflt and self.dflt not in self.env) \
                or st.orelse or self.depth or self.scopes:
            self.fail("unsupported branch (only `if retain: self.<attr> = <value>` in _infer)", st)
        for s in st.body:
            if not (isinstance(s, ast.Assign) and len(s.targets) == 1 and isinstance(s.targets[0], ast.Attribute)
                    and isinstance(s.targets[0].value, ast.Name) and s.targets[0].value.id == "self"):
                self.fail("unsupported statement under `if retain:` (only self.<attr> = <value>)", s)
            a = s.targets[0].attr
            if a not in RETAINABLE or a in self.attrs or a in self.retained:
                self.fail(f"self.{a} = …: not an attribute `_infer` may retain (or read / written before)", s)
            v = self.expr(s.value)
            kind = "arr2" if (v.kind == "arr" and v.nd == 2) else v.kind
            if kind != RETAINABLE[a]:
                self.fail(f"self.{a} = {self.describe(v)}: expected {RETAINABLE[a]}", s)
            for r in v.roots:
                self.aliased.add(r)
            self.retained[a] = (len(self.lets), len(self.oks), len(self.checks), v)

    def loop(self, st):
        """`for i, (_, c) in enumerate(self.cut_points_list_):` whose body appends to ONE list of arrays bound before the loop"""
        if st.orelse or self.depth or self.scopes:
            self.fail("unsupported loop", st)
        it, t = st.iter, st.target
        what = "unsupported loop (only `for i, (f, c) in enumerate(self.cut_points_list_):`, `for i in range(len(self.cut_points_list_)):` " \
               "and, filling empty lists, `for f, c in self.cut_points_list_:`)"
        if isinstance(it, ast.Call) and self.builtin(it.func, "enumerate") and len(it.args) == 1 and not it.keywords:
            src = self.expr(it.args[0])
            ok = src.kind == "cpl" and isinstance(t, ast.Tuple) and len(t.elts) == 2 and isinstance(t.elts[0], ast.Name) \
                and isinstance(t.elts[1], ast.Tuple) and len(t.elts[1].elts) == 2 and all(isinstance(x, ast.Name) for x in t.elts[1].elts)
            if not ok:
                self.fail(what, st)
            names = [t.elts[0].id, t.elts[1].elts[0].id, t.elts[1].elts[1].id]
            if len(set(names)) != 3:
                self.fail("loop targets must be distinct names", st)
        elif isinstance(it, ast.Call) and self.builtin(it.func, "range") and len(it.args) == 1 and not it.keywords \
                and isinstance(t, ast.Name) and self.is_cpl_length(it.args[0]):
            # `range(len(self.cut_points_list_))` visits the positions of `enumerate(self.cut_points_list_)`, in the same order
            src = self.attr("cut_points_list_", it)
            names = [t.id, "_", "_"]
        else:
            src = self.expr(it) if isinstance(it, ast.Attribute) else None
            if src is None or src.kind != "cpl":
                self.fail(what, st)
            return self.loop_map(st, src)
        stores, assigned = [], []
        for node in ast.walk(ast.Module(body=st.body, type_ignores=[])):
            if isinstance(node, (ast.For, ast.While, ast.If, ast.Return, ast.Break, ast.Continue, ast.With, ast.Try, ast.Lambda)):
                self.fail(f"{type(node).__name__} inside a loop", node)
            if isinstance(node, ast.AugAssign) and isinstance(node.target, ast.Name) \
                    and self.env.get(node.target.id, Val("", "")).kind == "ulist":
                stores.append(node.target.id)
            elif isinstance(node, (ast.Assign, ast.AugAssign)):
                for tg in (node.targets if isinstance(node, ast.Assign) else [node.target]):
                    if isinstance(tg, ast.Subscript) and isinstance(tg.value, ast.Name) and isinstance(node, ast.Assign):
                        tg = tg.value            # `g[order] = v` re-assigns `g`
                    if not isinstance(tg, ast.Name):
                        self.fail("unsupported assignment target inside a loop", node)
                    assigned.append(tg.id)
            elif isinstance(node, ast.Call) and isinstance(node.func, ast.Attribute) and node.func.attr == "append" \
                    and isinstance(node.func.value, ast.Name):
                stores.append(node.func.value.id)
        carried = sorted({x for x in assigned if x in self.env} | {x for x in names if x in self.env or x in assigned})
        if carried:
            self.fail(f"variable(s) {', '.join(carried)} of the loop exist before it or are re-assigned (loop-carried plain variables)", st)
        state = list(dict.fromkeys(stores))
        if len(state) != 1:
            self.fail("a loop must append to exactly one list of arrays bound before it", st)
        s = state[0]
        cur = self.owned_any(s, ("ulist",), st, "append inside a loop")
        saved = self.sub_scope()
        self.depth += 1
        try:
            st_lean, zi = self.fresh_name("st"), self.fresh_name("zi")
            inner = self.fresh_name(s)
            self.lets.append((inner, f"{st_lean}.2"))
            self.env[s] = Val("ulist", inner, None, True)
            self.aliased.discard(s)
            for nm, term, kind in ((names[0], f"{zi}.2", "nat"), (names[1], f"{zi}.1.1", "nat"), (names[2], f"{zi}.1.2", "arr")):
                if nm == "_":
                    continue
                lean = self.fresh_name(nm)
                self.lets.append((lean, term))
                if kind == "nat":
                    self.env[nm] = Val("nat", lean)
                else:
                    self.env[nm] = Val("arr", lean, 1, False, {"self.cut_points_list_"}, mi=False)
                    self.aliased.add(nm)
            try:
                self.block(st.body)
            except Returned:
                self.fail("return inside a loop", st)
            out = self.env[s].term
            flags = " && ".join([f"{st_lean}.1"] + [f"{n}.ok" for n in self.oks] + list(dict.fromkeys(self.checks)))
            lines = [f"({src.term}.zipIdx.foldl (fun ({st_lean} : Bool × List (Arr α)) ({zi} : (Nat × Arr α) × Nat) =>"]
            lines += [f"      let {n} := {tm}" for n, tm in self.lets]
            lines += [f"      let flags := {flags}", f"      (flags, {out})) (true, {cur.term}))"]
        finally:
            self.depth -= 1
            self.lets, self.oks, self.checks, self.env, self.aliased = saved
        res = self.fresh_name("loop")
        self.lets.append((res, "\n".join(lines)))
        self.checks.append(f"{res}.1")
        self.bind(s, Val("ulist", f"{res}.2", None, True), st)

    def loop_map(self, st, src):
        """`for f, c in self.cut_points_list_:` whose body computes one `b, o = self._leaf_binning(…)` per entry and appends `b` and
        `o` to two lists that are EMPTY before the loop: the two lists are `res.map (·.1)` and `res.map (·.2)` for
        `res = cut_points_list_.map (fun z => _leaf_binning …)` — what the lambda / map / list pipeline produces.  Plain assignments
        of the body (`col = X[:, f:f + 1]`) are expressions named for one iteration: they are inlined."""
        t = st.target
        outer = self.env
        saved = self.sub_scope()
        try:
            z = self.fresh_name("z")
            if isinstance(t, ast.Name):
                bound = [t.id]
                self.env[t.id] = Val("cplitem", z)
            elif isinstance(t, ast.Tuple) and len(t.elts) == 2 and all(isinstance(y, ast.Name) for y in t.elts) \
                    and t.elts[0].id != t.elts[1].id:
                bound = [t.elts[0].id, t.elts[1].id]
                self.env[bound[0]] = Val("nat", f"{z}.1")
                self.env[bound[1]] = Val("arr", f"{z}.2", 1, False, {"self.cut_points_list_"}, mi=False)
            else:
                self.fail("unsupported loop target", st)
            pair, parts, appends = None, None, {}
            for s in st.body:
                if isinstance(s, ast.Expr) and isinstance(s.value, ast.Constant) and isinstance(s.value.value, str):
                    continue
                if isinstance(s, ast.Assign) and len(s.targets) == 1 and isinstance(s.targets[0], ast.Name) and pair is None:
                    nm = s.targets[0].id
                    v = self.expr(s.value)
                    if nm in outer or nm in bound or v.kind not in ("arr", "nat", "scal"):
                        self.fail("inside this loop only fresh names may be assigned, to arrays / lengths / scalars", s)
                    bound.append(nm)
                    self.env[nm] = Val(v.kind, v.term, v.nd, False, set(v.roots) | {"self.cut_points_list_"}, mi=v.mi) \
                        if v.kind == "arr" else v
                    self.aliased.add(nm)
                    continue
                if isinstance(s, ast.Assign) and len(s.targets) == 1 and isinstance(s.targets[0], ast.Tuple) and pair is None:
                    tt = s.targets[0]
                    v = self.expr(s.value)
                    if v.kind != "pair" or len(tt.elts) != 2 or not all(isinstance(y, ast.Name) for y in tt.elts) \
                            or tt.elts[0].id == tt.elts[1].id or any(y.id in outer or y.id in bound for y in tt.elts):
                        self.fail("inside this loop only `b, o = self._leaf_binning(…)` may be unpacked (into fresh names)", s)
                    pair, parts = v.term, [tt.elts[0].id, tt.elts[1].id]
                    continue
                if isinstance(s, ast.Expr) and isinstance(s.value, ast.Call) and isinstance(s.value.func, ast.Attribute) \
                        and s.value.func.attr == "append" and isinstance(s.value.func.value, ast.Name) and pair is not None:
                    c = s.value
                    L = c.func.value.id
                    cur = outer.get(L)
                    if cur is None or cur.kind != "emptylist" or not cur.fresh or L in saved[4] or L in appends or len(c.args) != 1 \
                            or c.keywords or not isinstance(c.args[0], ast.Name) or c.args[0].id not in parts \
                            or parts.index(c.args[0].id) in appends.values():
                        self.fail("inside this loop only `<empty list>.append(b)` and `<another empty list>.append(o)`", s)
                    appends[L] = parts.index(c.args[0].id)
                    continue
                self.fail(f"unsupported statement {type(s).__name__} inside a loop over self.cut_points_list_", s)
            if pair is None or sorted(appends.values()) != [0, 1] or self.lets or self.oks or self.checks:
                self.fail("a loop over self.cut_points_list_ must unpack one _leaf_binning call and append both results", st)
        finally:
            self.lets, self.oks, self.checks, self.env, self.aliased = saved
        res = self.fresh_name("binnings_results")
        self.lets.append((res, f"({src.term}.map (fun {z} => {pair[1:-1]}))"))
        for L, k in sorted(appends.items(), key=lambda kv: kv[1]):
            x = self.fresh_name("x")
            if k == 0:
                self.bind(L, Val("arrlist", f"({res}.map (fun {x} => {x}.1))", None, True), st)
            else:
                self.bind(L, Val("iarrlist", f"({res}.map (fun {x} => {x}.2))", None, True), st)

    def run(self):
        a = self.fn.args
        names = [x.arg for x in a.args]
        want = ["self"] + [p for p, _ in self.params] + ([self.dflt] if self.dflt else [])
        ok_dflt = (not a.defaults) if self.dflt is None else \
            (len(a.defaults) == 1 and isinstance(a.defaults[0], ast.Constant) and a.defaults[0].value is True)
        if a.vararg or a.kwarg or a.kwonlyargs or a.posonlyargs or names != want or not ok_dflt:
            self.fail(f"unexpected signature (expected {self.meth}({', '.join(want)}{'=True' if self.dflt else ''}))")
        for p, kind in self.params:
            lean = self.fresh_name(p)
            if lean != p:
                self.fail(f"parameter name {p} cannot be used in Lean")
            self.env[p] = Val("arr", p, int(kind[-1]), False, mi=False)
            self.aliased.add(p)
        try:
            self.block(self.fn.body)
        except Returned:
            pass
        if self.result is None:
            self.fail("no return value")
        r = self.result
        shape = [(v.kind, v.nd) for v in r.term] if r.kind == "tuple" else (r.kind, r.nd)
        expect = {"leaf_binning": [("arr", 2), ("iarr", 1)], "merge_leaf": ("arr", 2), "infer": ("arr", 2),
                  "compute_grads": ("ulist", None)}[self.lean_name]
        if shape != expect:
            self.fail(f"unexpected kind of returned value {shape} (expected {expect})")
        return self

    # ------------------------------------------------------------ emission
    def checked(self, v, flags="flags"):
        if v.kind == "arr":
            return f"(Arr.checked {flags} {v.term})"
        if v.kind == "iarr":
            return f"(checkedN {flags} {v.term})"
        if v.kind in ("ulist", "arrlist"):
            return f"({v.term}.map (Arr.checked {flags}))"
        if v.kind == "iarrlist":
            return f"({v.term}.map (checkedN {flags}))"
        self.fail(f"cannot return {self.describe(v)}")

    def signature(self):
        return " ".join([f"({ATTRS[a][1]} : {ATTRS[a][2]})" for a in sorted(self.attrs)] + [f"({p} : Arr α)" for p, _ in self.params])

    def emit(self):
        def body(lets, oks, checks, fin):
            flags = " && ".join([f"{n}.ok" for n in oks] + list(dict.fromkeys(checks))) or "true"
            return [f"  let {n} := {t}" for n, t in lets] + [f"  let flags := {flags}", "  " + fin, ""]
        r = self.result
        if r.kind == "tuple":
            fin, rty = "(" + ", ".join(self.checked(v) for v in r.term) + ")", RESULT_T["pair"]
        else:
            fin, rty = self.checked(r), RESULT_T["arr2" if r.kind == "arr" else r.kind]
        out = [f"/-- `{CLS}.{self.meth}` ({self.rel}) -/", f"def {self.lean_name} {self.signature()} : {rty} :="]
        out += body(self.lets, self.oks, self.checks, fin)
        for a, (nl, no, nc, v) in self.retained.items():
            out += [f"/-- what `{CLS}.{self.meth}` retains in `self.{a}` ({self.rel}) -/",
                    f"def {self.lean_name}_retained{a} {self.signature()} : {RESULT_T[RETAINABLE[a]]} :="]
            out += body(self.lets[:nl], self.oks[:no], self.checks[:nc], self.checked(v))
        return "\n".join(out)

    def data(self):
        r = self.result
        return {"class": CLS, "method": self.meth, "file": self.rel, "attrs": sorted(self.attrs),
                "params": [list(p) for p in self.params], "lets": [[n, t] for n, t in self.lets],
                "result": [v.term for v in r.term] if r.kind == "tuple" else r.term,
                "retained": {a: v.term for a, (_, _, _, v) in self.retained.items()}}


def translate():
    tree = tables._parse(FILE)
    nps = G._numpy_names(FILE, tree)
    done = {}
    for lean_name, meth, params, dflt in UNITS:
        done[lean_name] = Unit(FILE, tree, nps, lean_name, meth, params, dflt, done).run()
    # what `_compute_grads` reads of the private state is what `_infer` retains, with the same kinds
    inf, grads = done["infer"], done["compute_grads"]
    for a in sorted(grads.attrs):
        if a in RETAINABLE and a not in inf.retained:
            raise TranslationFailure(f"{FILE}: _compute_grads reads self.{a}, which _infer does not retain")
    if inf.attrs - {"cut_points_list_", "leaf_scores_", "temperature"} or \
            grads.attrs - {"_all_binnings", "_all_orders", "_leaf", "cut_points_list_", "leaf_scores_", "temperature"}:
        raise TranslationFailure(f"{FILE}: unexpected attributes read")
    return list(done.values())


def douglas():
    units = translate()
    data = {u.lean_name: u.data() for u in units}
    L = ["/- GENERATED by translator/douglas.py from " + FILE + " — do not edit.",
         "   `Douglas._leaf_binning`, `_merge_leaf`, `_infer` (+ what it retains), `_compute_grads` over the untyped NumPy of",
         "   GemVerif/Np.lean … Np5.lean; parameters: the `self.*` attributes read (sorted by name; private ones as `self_<name>`), then",
         "   the method's arguments.  0-d arrays are `(1, 1)`, 1-D arrays `(1, m)`, integer arrays `Arr Nat`.",
         "   Props/C15Gen.lean proves them equal to Model/Douglas.lean. -/",
         "import GemVerif.Np5", "",
         "set_option linter.unusedVariables false", "",
         "namespace GemVerif.Gen.Douglas",
         "open GemVerif GemVerif.RealLike GemVerif.Np", "",
         "variable {α : Type} [RealLike α]", ""]
    for u in units:
        L.append(u.emit())
    L += ["end GemVerif.Gen.Douglas", ""]
    return data, "\n".join(L)


if __name__ == "__main__":
    d, t = douglas()
    print(t)
