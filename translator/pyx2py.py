"""Transliterate gemclus/tree/_utils.pyx (Cython) into importable pure Python with the same semantics.

Cython is not installed in this sandbox, so the compiled `.so` cannot be rebuilt from an edited
`.pyx`; every check runs *this* transliteration of the current source instead (DESIGN.md 1.2).
What is done: `cimport`/`np.import_array()` dropped; `cdef class` -> `class`; `cdef`/`cpdef`
functions -> `def` with C types stripped from the signature; `cdef` declarations dropped (their
initialisers kept); integer-typed locals and parameters are coerced with `_I(...)` (so that a zero
divisor raises ZeroDivisionError as in Cython instead of producing `inf`); un-dtyped `np.zeros(n)`
work arrays become `_Z(n)`.  `_I`/`_Z` are `int`/`np.zeros` in float mode, and
`Fraction`/object arrays in exact mode (set `_EXACT = True`), which makes every `/` exact.
"""
import os
import re
import sys
import types

REPO = os.environ.get("VERIF_REPO", "/repo")
INT_TYPES = ("np.int64_t", "Py_ssize_t", "int", "np.intp_t", "long", "bint")
FLOAT_TYPES = ("np.float64_t", "double", "float")

PRELUDE = '''
from fractions import Fraction as _Fraction
_EXACT = False
def _frac(o):
    return o if isinstance(o, _Fraction) else _Fraction(o if isinstance(o, float) else int(o))
class _QInt(int):
    """an int (usable as an index) whose true division is exact"""
    def __truediv__(self, o):
        return _Fraction(int(self)) / _frac(o)
    def __rtruediv__(self, o):
        return _frac(o) / _Fraction(int(self))
def _I(x):
    return _QInt(int(x)) if _EXACT else int(x)
def _Z(n):
    import numpy as _np
    if _EXACT:
        a = _np.empty(int(n), dtype=object); a[:] = _Fraction(0); return a
    return _np.zeros(int(n))
'''


class TransliterationError(Exception):
    pass


def split_params(s):
    out, depth, cur = [], 0, ""
    for ch in s:
        if ch in "[(":
            depth += 1
        elif ch in "])":
            depth -= 1
        if ch == "," and depth == 0:
            out.append(cur)
            cur = ""
        else:
            cur += ch
    if cur.strip():
        out.append(cur)
    return out


def strip_param(p):
    """`np.float64_t[:,:] gamma` -> ('gamma', is_int) ; `np.int64_t[:] indices_b=None` -> 'indices_b=None'"""
    p = p.strip()
    default = ""
    depth = 0
    for pos, ch in enumerate(p):
        if ch in "[(":
            depth += 1
        elif ch in "])":
            depth -= 1
        elif ch == "=" and depth == 0:
            p, default = p[:pos].strip(), "=" + p[pos + 1:].strip()
            break
    m = re.match(r"^(.*?)([A-Za-z_][A-Za-z_0-9]*)$", p)
    if not m:
        raise TransliterationError(f"cannot parse parameter {p!r}")
    typ, name = m.group(1).strip(), m.group(2)
    is_int = typ in INT_TYPES and typ != "bint"
    return name + default, name, is_int


def transliterate(src):
    lines = src.split("\n")
    out = []
    i = 0
    int_vars = set()       # per function
    func_indent = None
    pending_coerce = []
    while i < len(lines):
        line = lines[i]
        stripped = line.strip()
        indent = len(line) - len(line.lstrip())
        if func_indent is not None and stripped and indent <= func_indent and not stripped.startswith(("#", '"""', ")")):
            int_vars = set()
            func_indent = None
        if stripped.startswith("cimport ") or stripped == "np.import_array()":
            i += 1
            continue
        m = re.match(r"^(\s*)cdef class (\w+)\s*:", line)
        if m:
            out.append(f"{m.group(1)}class {m.group(2)}:")
            i += 1
            continue
        if re.match(r"^\s*cdef readonly ", line):
            i += 1
            continue
        # function headers (possibly spanning several lines)
        m = re.match(r"^(\s*)(cdef|cpdef|def)\s+(.*)$", line)
        if m and "(" in line and "=" not in line.split("(")[0]:
            ind, kind, rest = m.groups()
            header = rest
            while header.count("(") > header.count(")") or not header.rstrip().endswith(":"):
                i += 1
                header += " " + lines[i].strip()
            hm = re.match(r"^(.*?)(\w+)\s*\((.*)\)\s*(->\s*[\w\.]+)?\s*:\s*$", header, re.S)
            if not hm:
                raise TransliterationError(f"cannot parse header {header!r}")
            name, params = hm.group(2), hm.group(3)
            new_params, coerces = [], []
            for p in split_params(params):
                if not p.strip():
                    continue
                txt, pname, is_int = strip_param(p)
                new_params.append(txt)
                if is_int:
                    coerces.append(pname)
            out.append(f"{ind}def {name}({', '.join(new_params)}):")
            func_indent = len(ind)
            int_vars = set(coerces)
            pending_coerce = coerces
            i += 1
            # emit coercions right after the docstring (or immediately)
            body_ind = None
            # copy docstring if present
            j = i
            while j < len(lines) and not lines[j].strip():
                out.append(lines[j]); j += 1
            if j < len(lines):
                body_ind = " " * (len(lines[j]) - len(lines[j].lstrip()))
                if lines[j].strip().startswith(('"""', 'r"""')):
                    q = j
                    first = lines[j].strip()
                    # a raw docstring would need an r prefix; normalise backslashes by making it raw
                    if first.count('"""') >= 2 and len(first) > 3:
                        out.append(lines[j].replace('"""', 'r"""', 1) if not first.startswith("r") else lines[j])
                        j += 1
                    else:
                        out.append(lines[j].replace('"""', 'r"""', 1) if not first.startswith("r") else lines[j])
                        j += 1
                        while '"""' not in lines[j]:
                            out.append(lines[j]); j += 1
                        out.append(lines[j]); j += 1
            for c in pending_coerce:
                out.append(f"{body_ind}{c} = _I({c})")
            pending_coerce = []
            i = j
            continue
        # cdef declarations
        m = re.match(r"^(\s*)cdef\s+(.*)$", line)
        if m:
            ind, decl = m.groups()
            tm = re.match(r"^((?:np\.ndarray\[[^\]]*\])|(?:[\w\.]+(?:\[[:, ]*\])?))\s*(.*)$", decl)
            if not tm:
                raise TransliterationError(f"cannot parse cdef {decl!r}")
            typ, rest = tm.group(1), tm.group(2)
            base = re.sub(r"\[.*\]", "", typ)
            is_int = base in INT_TYPES and "[" not in typ and base != "bint"
            if "=" in rest and not re.match(r"^[\w, ]+$", rest):
                # single declaration with initialiser
                name, init = rest.split("=", 1)
                name = name.strip()
                if is_int:
                    int_vars.add(name)
                    out.append(f"{ind}{name} = _I({init.strip()})")
                else:
                    out.append(f"{ind}{name} = {init.strip()}")
            else:
                for nme in rest.split(","):
                    if is_int and nme.strip():
                        int_vars.add(nme.strip())
                # declaration only: nothing to emit
            i += 1
            continue
        # integer coercion of simple assignments to int-typed locals
        m = re.match(r"^(\s*)(\w+)\s*=\s*(?!=)(.*)$", line)
        if m and m.group(2) in int_vars and not line.rstrip().endswith(("(", ",", "\\")):
            ind, name, expr = m.groups()
            expr_nc = expr.split("#")[0].strip()
            if expr_nc.count("(") == expr_nc.count(")"):
                line = f"{ind}{name} = _I({expr_nc})"
        # work arrays
        line = re.sub(r"np\.zeros\((\w+)\)", r"_Z(\1)", line)
        out.append(line)
        i += 1
    return PRELUDE + "\n".join(out) + "\n"


def load(path=None, exact=False, name="gemclus_tree_utils_translit"):
    """import the transliteration of the CURRENT _utils.pyx as a fresh module"""
    path = path or os.path.join(REPO, "gemclus/tree/_utils.pyx")
    src = transliterate(open(path).read())
    mod = types.ModuleType(name)
    mod.__file__ = path + " (transliterated)"
    try:
        exec(compile(src, mod.__file__, "exec"), mod.__dict__)
    except SyntaxError as e:
        raise TransliterationError(f"transliteration does not compile: {e}")
    mod._EXACT = exact
    mod.__source__ = src
    return mod


def install(mod=None):
    """rebind gemclus.tree.kauri's module attributes to the transliterated functions, so that
    Kauri.fit / score run the current `.pyx` source rather than a possibly stale binary"""
    import gemclus.tree.kauri as K
    mod = mod or load()
    K.find_best_split = mod.find_best_split
    K.gemini_objective = mod.gemini_objective
    return mod


if __name__ == "__main__":
    print(transliterate(open(os.path.join(REPO, "gemclus/tree/_utils.pyx")).read()))
