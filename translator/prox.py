"""NumPy-expression translator for the proximal operators of gemclus/sparse/_prox_grad.py (properties C05, C06).

Reads the CURRENT source of /repo with python `ast` (gemclus is never imported) and emits `lean/GemVerif/Gen/Prox.lean`:
one `def` per module-level function — `soft_threshold`, `linear_prox_grad`, `mlp_prox_grad`, `group_linear_prox_grad`,
`group_mlp_prox_grad` — over the untyped array DSL of `GemVerif/Np.lean` + `Np2.lean` + `Np3.lean`.
Props/C05Gen.lean proves every generated definition equal (no NumPy error, same shape, same entries) to the hand model of
Model/Prox.lean that the C05 / C06 theorems are stated about.

Built on translator/geminis.py (same values, same aliasing discipline, same `Arr.checked flags` convention: the returned
arrays carry the conjunction of the `ok` of EVERY array bound on the way).  What is specific here:

  * Parameters (FIXED kinds, table UNITS; a changed signature is a TranslationFailure): weight matrices are 2-D arrays
    (`Arr α`), `alpha`, `M`, `threshold` Python scalars (`α`), `groups` a Python list of lists of row indices
    (`List (List Nat)`: non-negative indices only).  A function that calls `np.empty` gets a FIRST extra parameter
    `junk : Nat → Nat → Nat → α`: `junk n` is the content of the n-th uninitialised array.
  * A function may call a function translated before it (`soft_threshold(0, x)`, `linear_prox_grad(…)`,
    `mlp_prox_grad(…)`): the call becomes an application of the generated definition.  A call of any OTHER top-level
    function of the file (a helper such as `_as_single_row`) is inlined, as in geminis.py (`Unit.inline`).  A function returning a tuple of two
    arrays yields an `Arr α × Arr α`; `a, b = f(…)` binds the pair, then its components.
  * `for g in groups:` becomes `groups.foldl (fun state g => …) state0`: the state is made of the arrays the body writes
    into with `X[g] = …` (one array, or a pair); every other name assigned in the body is local to one iteration (reading
    it after the loop, or carrying a plain variable around the loop, is refused).  The state leaving an iteration is
    wrapped in `Arr.checked flags`, `flags` = the `ok` of every array bound in the body.
  * New expressions: `x.shape` (as the argument of `np.empty`, `.reshape`, or unpacked: `batch, k = u.shape`),
    `np.linalg.norm(x, [ord=2,] axis=1, keepdims=True)`, `np.sort(x, axis=1)`, `x[:, ::-1]`, `np.cumsum(x, axis=1)`,
    `np.concatenate([a, b], axis=1)`, `np.arange(k + c)` / `np.arange(k)` for a shape entry `k` and a non-negative
    integer-valued literal `c`, `np.zeros((r, c))`, `np.empty(shape)`, `np.full(shape, scalar)`,
    `np.sum(mask, axis=1, keepdims=True)` = `np.count_nonzero(mask, axis=1, keepdims=True)` of a Boolean array (an
    `Arr Nat`), `np.take_along_axis(x, idx, axis=1)`, `np.where(mask, scalar, array)`,
    `np.where(mask, scalar, scalar)`, `np.minimum(a, b)`, `a > b` / `a < b` between arrays, `a >= scalar`,
    `.reshape((1, -1))` / `.reshape((r, c))` / `.reshape(y.shape)` of a 2-D array, `W[g]` and `W[g] = value` for the loop
    variable `g`.
Anything else raises TranslationFailure: the tie is then reported broken.
"""
import ast

from . import geminis as G
from . import tables
from .geminis import Returned, Val, may_be_int, tracked
from .tables import TranslationFailure

FILE = "gemclus/sparse/_prox_grad.py"

# (function, parameters with their kinds) in dependency order
UNITS = [
    ("soft_threshold", [("threshold", "scal"), ("x", "arr")]),
    ("linear_prox_grad", [("W", "arr"), ("alpha", "scal")]),
    ("mlp_prox_grad", [("W_skip_", "arr"), ("W1_", "arr"), ("alpha", "scal"), ("M", "scal")]),
    ("group_linear_prox_grad", [("groups", "groups"), ("W", "arr"), ("alpha", "scal")]),
    ("group_mlp_prox_grad", [("groups", "groups"), ("W_skip", "arr"), ("W1", "arr"), ("alpha", "scal"), ("M", "scal")]),
]
LEAN_TYPES = {"arr": "Arr α", "scal": "α", "groups": "List (List Nat)"}
RESERVED = {"junk", "st"}


class Unit(G.Unit):
    def __init__(self, rel, tree, numpy_names, name, params, done):
        self.rel, self.numpy, self.lean_name, self.where = rel, numpy_names, name, name
        self.params, self.done = params, done
        fns = [f for f in tree.body if isinstance(f, ast.FunctionDef) and f.name == name]
        if len(fns) != 1:
            self.fail(f"expected exactly one module-level function {name}")
        self.fn = fns[0]
        if self.fn.decorator_list:
            self.fail("decorated function")
        G.check_plain_function(self, self.fn)
        self.helpers = G.module_helpers(tree)
        self.scopes, self.mi_stack = [], []
        self.pynames = {n.id for n in ast.walk(self.fn) if isinstance(n, ast.Name)} | {a.arg for a in self.fn.args.args}
        self.used = set(RESERVED) | {u for u in done}
        self.lets, self.oks, self.checks = [], [], []
        self.env, self.aliased = {}, set()
        self.result = None
        self.n_junk = 0
        self.depth = 0                       # loop nesting

    # ------------------------------------------------------------ helpers
    def dim_term(self, e, what):
        """a shape entry: a Nat variable / `x.shape[i]` or a non-negative integer literal"""
        i = self.literal_int(e)
        if i is not None:
            if i < 0:
                self.fail(f"{what}: negative dimension", e)
            return str(i)
        v = self.expr(e)
        if v.kind != "nat":
            self.fail(f"{what}: a dimension must be a shape entry or an integer literal, got {self.describe(v)}", e)
        return v.term

    def shape_of(self, e, what):
        """[rows, cols] of a 2-D shape argument: `x.shape`, a variable holding one, or a tuple / list of two dimensions"""
        if isinstance(e, (ast.Tuple, ast.List)):
            if len(e.elts) != 2:
                self.fail(f"{what}: only 2-D shapes", e)
            return [self.dim_term(x, what) for x in e.elts]
        v = self.expr(e)
        if v.kind != "shape":
            self.fail(f"{what}: expected a shape, got {self.describe(v)}", e)
        return list(v.term)

    def describe(self, v):
        if v.kind == "iarr":
            return "integer array"
        return super().describe(v)

    def kwargs(self, call, allowed, what):
        kw = {}
        for k in call.keywords:
            if k.arg not in allowed or k.arg in kw:
                self.fail(f"{what}: unsupported argument {k.arg}", call)
            kw[k.arg] = k.value
        return kw

    def axis1(self, node, call, what):
        if node is None or self.literal_int(node) not in (1, -1):
            self.fail(f"{what}: only along axis=1", call)

    def true_(self, node):
        return isinstance(node, ast.Constant) and node.value is True

    def arr2(self, e, what):
        return self.arr(self.expr(e), e, what, 2)

    # ------------------------------------------------------------ expressions
    @tracked
    def expr(self, e):
        if isinstance(e, ast.Attribute) and e.attr == "shape":
            a = self.expr(e.value)
            if a.kind in ("arr", "mask", "iarr") and a.nd == 2:
                return Val("shape", [f"{a.term}.r", f"{a.term}.c"])
            self.fail(f".shape of {self.describe(a)}", e)
        if isinstance(e, ast.Compare) and len(e.ops) == 1:
            op = e.ops[0]
            l, r = self.expr(e.left), self.expr(e.comparators[0])
            if l.kind == "arr" and r.kind == "arr" and isinstance(op, (ast.Gt, ast.Lt)):
                if max(l.nd, r.nd) > 2:
                    self.fail("comparison between 3-d arrays", e)
                a, b = (l, r) if isinstance(op, ast.Gt) else (r, l)
                return Val("mask", f"(Arr.gtA {a.term} {b.term})", max(l.nd, r.nd), True)
            if l.kind == "arr" and l.nd <= 2 and r.kind in ("scal", "nat") and isinstance(op, ast.GtE):
                return Val("mask", f"(Arr.geS {l.term} {self.scal(r, e, 'comparison')})", l.nd, True)
            return super().expr(e)
        if isinstance(e, ast.Subscript) and not (isinstance(e.value, ast.Attribute) and e.value.attr == "shape"):
            a = self.expr(e.value)
            sl = e.slice
            if a.kind == "arr" and a.nd == 2 and isinstance(sl, ast.Tuple) and len(sl.elts) == 2 \
                    and all(isinstance(x, ast.Slice) for x in sl.elts):
                s0, s1 = sl.elts
                if s0.lower is None and s0.upper is None and s0.step is None and s1.lower is None and s1.upper is None \
                        and self.literal_int(s1.step) == -1:
                    return Val("arr", f"(Arr.flipCols {a.term})", 2, False, a.roots)      # a view
            if a.kind == "arr" and a.nd == 2 and not isinstance(sl, (ast.Tuple, ast.Slice)):
                g = self.expr(sl)
                if g.kind == "rows":
                    return Val("arr", f"(Arr.takeRows {a.term} {g.term})", 2, True)        # fancy indexing copies
            self.fail("unsupported subscript (only x[:, ::-1], x[g] for the loop variable g, x.shape[i])", e)
        return super().expr(e)

    def reshape(self, a, call, args):
        if a.kind == "arr" and a.nd == 2:
            if len(args) == 1 and not (isinstance(args[0], ast.Constant)):
                arg = args[0]
            else:
                arg = ast.Tuple(elts=list(args))
            if isinstance(arg, (ast.Tuple, ast.List)) and [self.literal_int(x) for x in arg.elts] == [1, -1]:
                return Val("arr", f"(Arr.flattenRow {a.term})", 2, False, a.roots)
            r, c = self.shape_of(arg, ".reshape")
            return Val("arr", f"(Arr.reshape2 {a.term} {r} {c})", 2, False, a.roots)
        return super().reshape(a, call, args)

    def call(self, e):
        f = e.func
        n = len(e.args)
        # ---- a function of the same module, translated before
        if isinstance(f, ast.Name) and f.id in self.done and f.id not in self.env:
            u = self.done[f.id]
            if e.keywords or n != len(u.params):
                self.fail(f"{f.id}(…): arguments do not match the signature", e)
            if u.n_junk:
                self.fail(f"{f.id}(…): calling a function that allocates uninitialised arrays is not supported", e)
            terms = []
            for x, (pname, kind) in zip(e.args, u.params):
                v = self.expr(x)
                if kind == "scal":
                    terms.append(self.scal(v, x, f"argument {pname}"))
                elif kind == "arr":
                    terms.append(self.arr(v, x, f"argument {pname}", 2).term)
                else:
                    if v.kind != kind:
                        self.fail(f"argument {pname}: expected {kind}, got {self.describe(v)}", x)
                    terms.append(v.term)
            term = "(" + " ".join([u.lean_name] + terms) + ")"
            if len(u.result) == 1:
                return Val("arr", term, 2, True)
            return Val("pair", term)
        # ---- np.linalg.norm
        if isinstance(f, ast.Attribute) and f.attr == "norm" and isinstance(f.value, ast.Attribute) and f.value.attr == "linalg" \
                and isinstance(f.value.value, ast.Name) and f.value.value.id in self.numpy and f.value.value.id not in self.env:
            kw = self.kwargs(e, {"ord", "axis", "keepdims"}, "np.linalg.norm")
            if n != 1:
                self.fail("np.linalg.norm: only np.linalg.norm(x, [ord=2,] axis=1, keepdims=True)", e)
            if "ord" in kw and not (self.literal_int(kw["ord"]) == 2 or (isinstance(kw["ord"], ast.Constant) and kw["ord"].value is None)):
                self.fail("np.linalg.norm: only the 2-norm", e)
            self.axis1(kw.get("axis"), e, "np.linalg.norm")
            if not self.true_(kw.get("keepdims")):
                self.fail("np.linalg.norm without keepdims=True", e)
            a = self.arr2(e.args[0], "np.linalg.norm")
            return Val("arr", f"(Arr.normAxis1 {a.term})", 2, True)
        if self.is_np(f, {"sort", "cumsum"}):
            kw = self.kwargs(e, {"axis"}, "np." + f.attr)
            if n != 1:
                self.fail(f"np.{f.attr}: only np.{f.attr}(x, axis=1)", e)
            self.axis1(kw.get("axis"), e, "np." + f.attr)
            a = self.arr2(e.args[0], "np." + f.attr)
            return Val("arr", f"(Arr.{'sortAxis1' if f.attr == 'sort' else 'cumsumAxis1'} {a.term})", 2, True)
        if self.is_np(f, {"concatenate"}):
            kw = self.kwargs(e, {"axis"}, "np.concatenate")
            if n != 1 or not isinstance(e.args[0], (ast.List, ast.Tuple)) or len(e.args[0].elts) != 2:
                self.fail("np.concatenate: only np.concatenate([a, b], axis=1)", e)
            self.axis1(kw.get("axis"), e, "np.concatenate")
            a, b = [self.arr2(x, "np.concatenate") for x in e.args[0].elts]
            return Val("arr", f"(Arr.concat1 {a.term} {b.term})", 2, True)
        if self.is_np(f, {"arange"}):
            if n != 1 or e.keywords:
                self.fail("np.arange: only np.arange(stop)", e)
            x = e.args[0]
            extra = 0
            if isinstance(x, ast.BinOp) and isinstance(x.op, ast.Add) and isinstance(x.right, ast.Constant) \
                    and type(x.right.value) in (int, float) and x.right.value >= 0 and x.right.value == int(x.right.value):
                extra, x = int(x.right.value), x.left
            v = self.expr(x)
            if v.kind != "nat":
                self.fail("np.arange: the stop must be a shape entry, possibly plus a non-negative integer-valued literal", e)
            stop = f"({v.term} + {extra})" if extra else v.term
            return Val("arr", f"(Arr.arange {stop})", 1, True, mi=(x is e.args[0] or type(e.args[0].right.value) is int))
        if self.is_np(f, {"zeros", "empty"}):
            if n != 1 or e.keywords:
                self.fail(f"np.{f.attr}: only np.{f.attr}(shape)", e)
            r, c = self.shape_of(e.args[0], "np." + f.attr)
            if f.attr == "zeros":
                return Val("arr", f"(Arr.zeros {r} {c})", 2, True)
            if self.depth:
                self.fail("np.empty inside a loop", e)
            k = self.n_junk
            self.n_junk += 1
            return Val("arr", f"(Arr.empty (junk {k}) {r} {c})", 2, True)
        if self.is_np(f, {"sum", "count_nonzero"}) and n >= 1:
            a = self.expr(e.args[0])
            if a.kind == "mask":
                # the number of True entries of each row, as an integer array, under both spellings
                axis, keep = self.reduce_args(e, e.args[1:], f.attr)
                if a.nd != 2 or axis not in (1, -1) or not keep:
                    self.fail(f"np.{f.attr} of a Boolean array: only np.{f.attr}(mask, axis=1, keepdims=True) of a 2-d mask", e)
                return Val("iarr", f"(Arr.countAxis1 {a.term})", 2, True)
            if f.attr == "count_nonzero":
                self.fail("np.count_nonzero of something that is not a Boolean array", e)
            # np.sum of a float array: geminis.py (the argument is evaluated once more; expressions are pure)
        if self.is_np(f, {"full"}):
            if n != 2 or e.keywords:
                self.fail("np.full: only np.full(shape, scalar)", e)
            r, c = self.shape_of(e.args[0], "np.full")
            fill = self.expr(e.args[1])
            return Val("arr", f"(Arr.full {r} {c} {self.scal(fill, e, 'np.full')})", 2, True, mi=may_be_int(fill))
        if self.is_np(f, {"take_along_axis"}):
            kw = self.kwargs(e, {"axis"}, "np.take_along_axis")
            if n not in (2, 3) or (n == 3) == ("axis" in kw):
                self.fail("np.take_along_axis: only np.take_along_axis(x, idx, axis=1)", e)
            self.axis1(e.args[2] if n == 3 else kw.get("axis"), e, "np.take_along_axis")
            a = self.arr2(e.args[0], "np.take_along_axis")
            i = self.expr(e.args[1])
            if i.kind != "iarr" or i.nd != 2:
                self.fail(f"np.take_along_axis: the indices must be a 2-d integer array, got {self.describe(i)}", e)
            return Val("arr", f"(Arr.takeAlong1 {a.term} {i.term})", 2, True)
        if self.is_np(f, {"where"}):
            if n != 3 or e.keywords:
                self.fail("np.where: only np.where(mask, a, b)", e)
            m, a, b = [self.expr(x) for x in e.args]
            if m.kind != "mask" or m.nd > 2 or a.kind not in ("scal", "nat"):
                self.fail("np.where: only np.where(Boolean array, scalar, scalar or array)", e)
            s = self.scal(a, e, "np.where")
            mi = may_be_int(a) and may_be_int(b)
            if b.kind in ("scal", "nat"):
                return Val("arr", f"(Arr.whereSS {m.term} {s} {self.scal(b, e, 'np.where')})", m.nd, True, mi=mi)
            self.arr(b, e, "np.where")
            return Val("arr", f"(Arr.whereSA {m.term} {s} {b.term})", max(m.nd, b.nd), True, mi=mi)
        if self.is_np(f, {"minimum"}):
            if n != 2 or e.keywords:
                self.fail("np.minimum: only np.minimum(a, b)", e)
            a = self.arr(self.expr(e.args[0]), e, "np.minimum")
            b = self.arr(self.expr(e.args[1]), e, "np.minimum")
            return Val("arr", f"(Arr.minimum {a.term} {b.term})", max(a.nd, b.nd), True)
        return super().call(e)

    # ------------------------------------------------------------ statements
    def bind(self, name, v, node):
        if name in self.done:
            self.fail(f"assignment to {name}", node)
        if v.kind in ("shape", "groups", "rows"):
            self.env[name] = v
            return
        if v.kind == "pair":
            self.fail("assignment of a tuple to one name", node)
        if v.kind == "iarr":
            lean = self.fresh_name(name)
            self.lets.append((lean, v.term))
            self.oks.append(lean)
            self.aliased.discard(name)
            self.env[name] = Val("iarr", lean, v.nd, True)
            return
        super().bind(name, v, node)

    def loop(self, st):
        if st.orelse or not isinstance(st.target, ast.Name) or not isinstance(st.iter, ast.Name):
            self.fail("unsupported loop (only `for g in groups:`)", st)
        it = self.expr(st.iter)
        if it.kind != "groups":
            self.fail(f"loop over {self.describe(it)} (only over the list of groups)", st)
        if self.depth:
            self.fail("nested loop", st)
        gname = st.target.id
        state, local = [], set()
        for node in ast.walk(ast.Module(body=st.body, type_ignores=[])):
            if isinstance(node, (ast.For, ast.While, ast.If, ast.Return, ast.Break, ast.Continue, ast.With, ast.Try)) and node is not st:
                self.fail(f"{type(node).__name__} inside a loop", node)
            targets = node.targets if isinstance(node, ast.Assign) else [node.target] if isinstance(node, ast.AugAssign) else []
            for t in targets:
                for x in (t.elts if isinstance(t, ast.Tuple) else [t]):
                    if isinstance(x, ast.Subscript) and isinstance(x.value, ast.Name):
                        if x.value.id in self.env and x.value.id not in state:
                            state.append(x.value.id)
                    elif isinstance(x, ast.Name):
                        local.add(x.id)
                    else:
                        self.fail("unsupported assignment target inside a loop", node)
        carried = sorted(x for x in local if x in self.env or x == gname)
        if carried:
            self.fail(f"variable(s) {', '.join(carried)} assigned inside the loop exist before it (loop-carried plain variables)", st)
        if not 1 <= len(state) <= 2:
            self.fail(f"a loop must write into one or two arrays allocated before it (found {len(state)})", st)
        init = [self.owned(s, st, "write inside a loop").term for s in state]
        saved = (self.lets, self.oks, dict(self.env), set(self.aliased))
        self.lets, self.oks = [], []
        self.depth += 1
        g_lean = self.fresh_name(gname)
        self.env[gname] = Val("rows", g_lean)
        st_lean = self.fresh_name("st") if len(state) == 2 else None
        inner = []
        for k, s in enumerate(state):
            nm = self.fresh_name(s)
            inner.append(nm)
            if st_lean:
                self.lets.append((nm, f"{st_lean}.{k + 1}"))
            self.env[s] = Val("arr", nm, 2, True)
        try:
            self.block(st.body)
        except Returned:
            self.fail("return inside a loop", st)
        outs = [self.env[s].term for s in state]
        flags = " && ".join(f"{n}.ok" for n in self.oks) or "true"
        body = [f"      let {n} := {t}" for n, t in self.lets] + [f"      let flags := {flags}"]
        fin = ", ".join(f"(Arr.checked flags {o})" for o in outs)
        self.depth -= 1
        self.lets, self.oks, self.env, self.aliased = saved
        if st_lean:
            head = f"({it.term}.foldl (fun ({st_lean} : Arr α × Arr α) ({g_lean} : List Nat) =>"
            term = "\n".join([head] + body + [f"      ({fin})) ({init[0]}, {init[1]}))"])
            pair = self.fresh_name("_".join(state))
            self.lets.append((pair, term))
            for k, s in enumerate(state):
                super().bind(s, Val("arr", f"{pair}.{k + 1}", 2, True), st)
        else:
            head = f"({it.term}.foldl (fun ({inner[0]} : Arr α) ({g_lean} : List Nat) =>"
            term = "\n".join([head] + body + [f"      {fin}) {init[0]})"])
            super().bind(state[0], Val("arr", term, 2, True), st)

    def stmt(self, st):
        if self.scopes and isinstance(st, (ast.Return, ast.For, ast.While)):
            return self.helper_stmt(st)
        if isinstance(st, ast.If):
            self.fail("branches are not supported", st)
        if isinstance(st, ast.For):
            return self.loop(st)
        if isinstance(st, ast.Assign) and len(st.targets) == 1:
            t = st.targets[0]
            if isinstance(t, ast.Tuple):
                if not all(isinstance(x, ast.Name) for x in t.elts) or len({x.id for x in t.elts}) != len(t.elts):
                    self.fail("unsupported unpacking target", st)
                v = self.expr(st.value)
                names = [x.id for x in t.elts]
                if v.kind == "shape" and len(names) == len(v.term):
                    for nm, d in zip(names, v.term):
                        super().bind(nm, Val("nat", d), st)
                    return
                if v.kind == "pair" and len(names) == 2:
                    pair = self.fresh_name("_".join(names))
                    self.lets.append((pair, v.term))
                    for k, nm in enumerate(names):
                        super().bind(nm, Val("arr", f"{pair}.{k + 1}", 2, True), st)
                    return
                self.fail(f"cannot unpack {self.describe(v)} into {len(names)} name(s)", st)
            if isinstance(t, ast.Subscript) and isinstance(t.value, ast.Name) and isinstance(t.slice, ast.Name) \
                    and self.env.get(t.slice.id, Val("", "")).kind == "rows":
                cur = self.owned(t.value.id, st, "row assignment")
                if cur.nd != 2:
                    self.fail("row assignment into an array that is not 2-d", st)
                v = self.arr(self.expr(st.value), st, "row assignment", 2)
                g = self.env[t.slice.id]
                super().bind(t.value.id, Val("arr", f"(Arr.setRows {cur.term} {g.term} {v.term})", 2, True), st)
                return
        if isinstance(st, ast.Return):
            if st.value is None:
                self.fail("return without value", st)
            vals = [self.expr(x) for x in st.value.elts] if isinstance(st.value, ast.Tuple) else [self.expr(st.value)]
            if len(vals) not in (1, 2):
                self.fail(f"return of {len(vals)} values", st)
            for v in vals:
                if v.kind != "arr" or v.nd != 2:
                    self.fail(f"return: expected 2-d float arrays, got {self.describe(v)}", st)
            self.result = vals
            raise Returned()
        return super().stmt(st)

    def run(self):
        a = self.fn.args
        names = [x.arg for x in a.args]
        if a.vararg or a.kwarg or a.kwonlyargs or a.posonlyargs or a.defaults or names != [p for p, _ in self.params]:
            self.fail(f"unexpected signature (expected {self.lean_name}({', '.join(p for p, _ in self.params)}))")
        for p, kind in self.params:
            lean = self.fresh_name(p)
            if lean != p:
                self.fail(f"parameter name {p} cannot be used in Lean")
            if kind == "arr":
                self.env[p] = Val("arr", p, 2, False)
                self.aliased.add(p)
            else:
                self.env[p] = Val(kind, p)
        try:
            self.block(self.fn.body)
        except Returned:
            pass
        if self.result is None:
            self.fail("no return value")
        return self

    # ------------------------------------------------------------ emission
    def emit(self):
        flags = " && ".join(self.checks + [f"{n}.ok" for n in self.oks]) or "true"
        ls = [f"  let {n} := {t}" for n, t in self.lets]
        outs = [f"(Arr.checked flags {v.term})" for v in self.result]
        fin = outs[0] if len(outs) == 1 else "(" + ", ".join(outs) + ")"
        rty = "Arr α" if len(outs) == 1 else "Arr α × Arr α"
        sig = " ".join((["(junk : Nat → Nat → Nat → α)"] if self.n_junk else [])
                       + [f"({p} : {LEAN_TYPES[k]})" for p, k in self.params])
        doc = f"`{self.lean_name}` ({self.rel})" + (f"; `junk n` = content of the {self.n_junk} uninitialised array(s) (`np.empty`)" if self.n_junk else "")
        return "\n".join([f"/-- {doc} -/", f"def {self.lean_name} {sig} : {rty} :="] + ls + [f"  let flags := {flags}", "  " + fin, ""])

    def data(self):
        return {"function": self.lean_name, "file": self.rel, "params": [list(p) for p in self.params], "n_junk": self.n_junk,
                "lets": [[n, t] for n, t in self.lets], "result": [v.term for v in self.result]}


def translate():
    tree = tables._parse(FILE)
    nps = G._numpy_names(FILE, tree)
    # a module-level rebinding of a translated function's name would change what a call means
    seen = {}
    for n in tree.body:
        nm = [n.name] if isinstance(n, (ast.FunctionDef, ast.ClassDef)) else \
            [t.id for t in n.targets if isinstance(t, ast.Name)] if isinstance(n, ast.Assign) else \
            [a.asname or a.name for a in n.names] if isinstance(n, (ast.Import, ast.ImportFrom)) else []
        for x in nm:
            seen[x] = seen.get(x, 0) + 1
    done = {}
    for name, params in UNITS:
        if seen.get(name, 0) != 1:
            raise TranslationFailure(f"{FILE}: {name} is bound {seen.get(name, 0)} times at module level")
        done[name] = Unit(FILE, tree, nps, name, params, done).run()
    return list(done.values())


def prox():
    units = translate()
    data = {u.lean_name: u.data() for u in units}
    L = ["/- GENERATED by translator/prox.py from " + FILE + " — do not edit.",
         "   One `def` per function over the untyped NumPy of GemVerif/Np.lean, Np2.lean and Np3.lean; parameters as in the",
         "   Python signature (weights: 2-D arrays, `alpha` / `M` / `threshold`: scalars, `groups`: lists of row indices), preceded by",
         "   `junk` (the contents of the `np.empty` arrays) where the function allocates uninitialised memory.",
         "   Props/C05Gen.lean proves them equal to Model/Prox.lean. -/",
         "import GemVerif.Np3", "",
         "set_option linter.unusedVariables false", "",
         "namespace GemVerif.Gen.Prox",
         "open GemVerif GemVerif.RealLike GemVerif.Np", "",
         "variable {α : Type} [RealLike α]", ""]
    for u in units:
        L.append(u.emit())
    L += ["end GemVerif.Gen.Prox", ""]
    return data, "\n".join(L)


if __name__ == "__main__":
    d, t = prox()
    print(t)
