"""Formula translator for the KAURI gains: symbolic straight-line evaluation of the assignment
blocks of `compute_all_splits` (gemclus/tree/_utils.pyx, through pyx2py) into closed Lean
expressions over named stocks.  The control skeleton (guards, running best, top-2 trick, scan)
is hand-modelled in Model/Kauri.lean and tied by exact correspondence; the *formulas* are
regenerated here on every run, so that a changed formula changes `Gen/KauriGains.lean` and the
gain-identity theorems of Props/C08.lean are re-checked against what the code says now.
"""
import ast
import os

from . import pyx2py
from .tables import TranslationFailure

ATOMS = {
    "sl_square": "sl_square", "sr_square": "sr_square", "leaf_square": "leaf_square",
    "n_leaf": "n_leaf", "split_size": "split_size",
}
SUBSCRIPTS = {
    "cluster_sizes[k]": "cs_k", "cluster_sizes[k_prime]": "cs_p",
    "gamma[k, k]": "gamma_kk", "gamma[k_prime, k_prime]": "gamma_pp",
    "sl_clusters[k]": "sl_k", "sr_clusters[k]": "sr_k",
    "sl_clusters[k_prime]": "sl_p", "sr_clusters[k_prime]": "sr_p",
    "omega[k, feature_id]": "omega_k_feat",
}
PARAMS = ["sl_square", "sr_square", "leaf_square", "n_leaf", "split_size", "cs_k", "cs_p", "gamma_kk", "gamma_pp",
          "sl_k", "sr_k", "sl_p", "sr_p", "omega_k_feat"]


class Sym:
    def __init__(self):
        self.env = {}
        self.divisors = []

    def expr(self, e):
        if isinstance(e, ast.Constant) and isinstance(e.value, int):
            return f"(nat {e.value})"
        if isinstance(e, ast.Name):
            if e.id in self.env:
                return self.env[e.id]
            if e.id in ATOMS:
                return ATOMS[e.id]
            raise TranslationFailure(f"unknown name {e.id} in a gain formula")
        if isinstance(e, ast.Subscript):
            key = ast.unparse(e)
            if key in SUBSCRIPTS:
                return SUBSCRIPTS[key]
            raise TranslationFailure(f"unsupported stock {key} in a gain formula")
        if isinstance(e, ast.Call) and isinstance(e.func, ast.Name) and e.func.id == "_I" and len(e.args) == 1:
            return self.expr(e.args[0])
        if isinstance(e, ast.UnaryOp) and isinstance(e.op, ast.UAdd):
            return self.expr(e.operand)
        if isinstance(e, ast.UnaryOp) and isinstance(e.op, ast.USub):
            return f"(-{self.expr(e.operand)})"
        if isinstance(e, ast.BinOp):
            l, r = self.expr(e.left), self.expr(e.right)
            op = {ast.Add: "+", ast.Sub: "-", ast.Mult: "*", ast.Div: "/"}.get(type(e.op))
            if op is None:
                raise TranslationFailure(f"unsupported operator {type(e.op).__name__}")
            if op == "/":
                self.divisors.append(r)
            return f"({l} {op} {r})"
        raise TranslationFailure(f"unsupported expression {ast.dump(e)[:80]}")

    def run(self, stmts):
        """consume leading Assign / AugAssign statements"""
        for st in stmts:
            if isinstance(st, ast.Assign) and len(st.targets) == 1 and isinstance(st.targets[0], ast.Name):
                self.env[st.targets[0].id] = self.expr(st.value)
            elif isinstance(st, ast.AugAssign) and isinstance(st.target, ast.Name):
                cur = self.expr(ast.Name(id=st.target.id))
                op = {ast.Add: "+", ast.Sub: "-", ast.Mult: "*", ast.Div: "/"}.get(type(st.op))
                rhs = self.expr(st.value)
                if op == "/":
                    self.divisors.append(rhs)
                self.env[st.target.id] = f"({cur} {op} {rhs})"
            else:
                break
        return self


def _cond_src(node):
    return ast.unparse(node.test)


def gains(path=None):
    src = pyx2py.transliterate(open(path or os.path.join(pyx2py.REPO, "gemclus/tree/_utils.pyx")).read())
    tree = ast.parse(src)
    fn = next((n for n in tree.body if isinstance(n, ast.FunctionDef) and n.name == "compute_all_splits"), None)
    if fn is None:
        raise TranslationFailure("compute_all_splits not found")
    ifs = [s for s in fn.body if isinstance(s, ast.If)]
    if len(ifs) != 3:
        raise TranslationFailure(f"compute_all_splits: expected 3 top-level blocks (double-star, star, switch), found {len(ifs)}")
    dstar, star, switch = ifs
    out = {}
    divs = {}
    s = Sym().run(dstar.body)
    out["doubleStar"] = s.env.get("double_star_gain"); divs["doubleStar"] = s.divisors
    s = Sym().run(star.body)
    out["leftStar"] = s.env.get("left_star"); out["rightStar"] = s.env.get("right_star"); divs["star"] = s.divisors
    loop = next((x for x in switch.body if isinstance(x, ast.For)), None)
    if loop is None:
        raise TranslationFailure("switch block: for-loop over k_prime not found")
    body = loop.body
    if not (isinstance(body[0], ast.If) and isinstance(body[0].body[0], ast.Continue)):
        raise TranslationFailure("switch loop: leading `if k == k_prime: continue` not found")
    s = Sym().run(body[1:])
    out["leftSwitch"] = s.env.get("left_switch"); out["rightSwitch"] = s.env.get("right_switch"); divs["switch"] = s.divisors
    refurb = next((x for x in switch.body if isinstance(x, ast.If)), None)
    if refurb is None:
        raise TranslationFailure("refurbish block not found")
    s = Sym().run(refurb.body)
    out["corrective"] = s.env.get("corrective_term"); divs["corrective"] = s.divisors
    for k, v in out.items():
        if v is None:
            raise TranslationFailure(f"gain variable for {k} is never assigned")
    guards = {"doubleStar": _cond_src(dstar), "star": _cond_src(star), "switch": _cond_src(switch),
              "refurbish": _cond_src(refurb)}
    sig = " ".join(PARAMS)
    lines = ["/- GENERATED by translator/kauri.py from gemclus/tree/_utils.pyx::compute_all_splits — do not edit.",
             "   Closed forms of the gain formulas over named stocks:",
             "   sl_square = σ(S_L²), sr_square = σ(S_R²), leaf_square = σ(N²), cs_k = |C_k|, cs_p = |C_k'|,",
             "   gamma_kk = σ(C_k²), gamma_pp = σ(C_k'²), sl_k = σ(S_L×C_k), sr_k = σ(S_R×C_k), sl_p = σ(S_L×C_k'), sr_p = σ(S_R×C_k'),",
             "   omega_k_feat = omega[k, feature_id] (appears only if the source uses it). -/",
             "import GemVerif.Num", "", "set_option linter.unusedVariables false", "", "namespace GemVerif.Gen.Kauri", "open GemVerif RealLike",
             "variable {α : Type} [RealLike α]", ""]
    for name in ["doubleStar", "leftStar", "rightStar", "leftSwitch", "rightSwitch", "corrective"]:
        lines.append(f"def {name} ({sig} : α) : α :=\n  {out[name]}\n")
    lines.append("/-- guards of the four blocks, as written in the source (informational) -/")
    lines.append("def guards : List (String × String) := [" + ", ".join(
        f'("{k}", "{v}")' for k, v in guards.items()) + "]")
    lines += ["", "end GemVerif.Gen.Kauri", ""]
    return {"formulas": out, "guards": guards, "divisors": divs}, "\n".join(lines)


if __name__ == "__main__":
    d, t = gains()
    print(t)
