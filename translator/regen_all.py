"""Regenerate every translated Lean unit from /repo's current working tree."""
import os
import sys

from . import tables

LEAN = os.path.join(os.path.dirname(os.path.dirname(os.path.abspath(__file__))), "lean")


def write_if_changed(path, text):
    if os.path.exists(path) and open(path).read() == text:
        return False
    open(path, "w").write(text)
    return True


def main():
    n = 0
    for name, fn, rel in UNITS:
        try:
            _, text = fn()
        except tables.TranslationFailure as e:
            print(f"translation failure in {name}: {e}", file=sys.stderr)
            continue
        if write_if_changed(os.path.join(LEAN, rel), text):
            n += 1
    print(f"regenerated {n} of {len(UNITS)} units")


UNITS = [("registry", tables.registry, "GemVerif/Gen/Registry.lean")]
UNITS.append(("datagen", __import__("translator.datagen", fromlist=["datagen"]).datagen, "GemVerif/Gen/DataGen.lean"))  # C20
UNITS.append(("frames", __import__("translator.frames", fromlist=["frames"]).frames, "GemVerif/Gen/Frames.lean"))  # C12
UNITS.append(("forwarding", __import__("translator.forwarding", fromlist=["forwarding"]).forwarding, "GemVerif/Gen/Forwarding.lean"))  # C11
UNITS.append(("constraints", __import__("translator.constraints", fromlist=["constraints"]).constraints, "GemVerif/Gen/Constraints.lean"))  # C16
UNITS.append(("nets", __import__("translator.nets", fromlist=["nets"]).nets, "GemVerif/Gen/Nets.lean"))  # C03 (C03Gen)
UNITS.append(("geminis", __import__("translator.geminis", fromlist=["geminis"]).geminis, "GemVerif/Gen/Geminis.lean"))  # C01/C02/C13 (C01Gen)
UNITS.append(("wass", __import__("translator.wass", fromlist=["wass"]).wass, "GemVerif/Gen/Wass.lean"))  # C01/C02/C13/C17 (C01WassGen)
UNITS.append(("prox", __import__("translator.prox", fromlist=["prox"]).prox, "GemVerif/Gen/Prox.lean"))  # C05/C06 (C05Gen)
UNITS.append(("douglas", __import__("translator.douglas", fromlist=["douglas"]).douglas, "GemVerif/Gen/Douglas.lean"))  # C15/C03/C18 (C15Gen)

if __name__ == "__main__":
    main()
